(* L4: coherence of the checker's weak-head normaliser with the call-by-value evaluator, on hole-free
   programs (definition groups INCLUDED; the top-level context is empty, so r_delta never fires):
   if evaluation ends in a literal / boolean constant, every terminating run of whnf returns the same
   literal / constant.  More generally the head former of the weak-head normal form is the head former
   of the value, and the two are convertible (conv0). *)
From Coq Require Import List ZArith Lia Bool Arith Relations.
Import ListNotations.
Require Import Gram.Model.Term Gram.Model.DeBruijn Gram.Model.Eval Gram.Spec.Cbv Gram.Spec.Typing Gram.Oracle.Infer
  Gram.Proofs.DeBruijnLaws Gram.Proofs.CtxProofs Gram.Proofs.WeakenProofs Gram.Proofs.InferSound Gram.Proofs.ConvProofs Gram.Proofs.CbvProofs
  Gram.Proofs.ConflLaws Gram.Proofs.Confluence Gram.Proofs.ConfluenceCons.

(* ---------- group-free terms ---------- *)
Fixpoint no_let (t : term) : bool :=
  match t with
  | THole _ _ | TType | TInt | TBool | TTrue | TFalse | TLit _ | TVar _ => true
  | TLam _ d b | TPi _ d b => no_let d && no_let b
  | TApp f a => no_let f && no_let a
  | TLet _ _ => false
  | TNeg a => no_let a
  | TBin _ a b => no_let a && no_let b
  | TIf c t e => no_let c && no_let t && no_let e
  end.

Ltac split_nl :=
  repeat match goal with
  | H : no_let (_ _) = true |- _ => progress cbn [no_let] in H
  | H : _ && _ = true |- _ => apply andb_prop in H; destruct H
  end.

Ltac nl_solve := cbn [no_let]; repeat (apply andb_true_intro; split); auto.

Lemma no_let_ushift : forall t c n, no_let t = true -> no_let (ushift t c n) = true.
Proof.
  induction t using term_ind'; intros c n Hn; cbn [no_let ushift] in *; try discriminate; auto; split_nl;
    rewrite ?IHt1, ?IHt2, ?IHt3; auto.
Qed.

Lemma no_let_open : forall t i s k, no_let t = true -> no_let s = true -> no_let (open t i s k) = true.
Proof.
  induction t using term_ind'; intros i0 s0 k0 Hn Hs; cbn [no_let open] in *; try discriminate; auto; split_nl;
    rewrite ?IHt1, ?IHt2, ?IHt3; auto.
  destruct (Nat.eqb i i0); [now apply no_let_ushift | reflexivity].
Qed.

Lemma arith_no_let o x y r : arith o x y = Some r -> no_let r = true.
Proof.
  destruct o; cbn; try (intros [= <-]; reflexivity);
    try (intros [= <-]; match goal with |- context[if ?b then _ else _] => destruct b end; reflexivity).
  destruct (y =? 0)%Z; [discriminate|]. intros [= <-]. reflexivity.
Qed.

(* ---------- the evaluator's step is a parallel reduction step ---------- *)
Lemma step_pred : forall t t', hole_free t = true -> no_let t = true -> step t = Some t' ->
  pred t t' /\ no_let t' = true.
Proof.
  induction t using term_ind'; intros t' Hf Hn Hs; cbn [step] in Hs; try discriminate; split_hf; split_nl.
  - (* app *)
    destruct (step t1) as [f'|] eqn:S1.
    + injection Hs as <-. destruct (IHt1 f') as [P N]; auto. split; [apply p_app; auto using pred_refl|].
      nl_solve.
    + destruct (is_value t1); cbn [negb] in Hs; [|discriminate].
      destruct (step t2) as [a'|] eqn:S2.
      * injection Hs as <-. destruct (IHt2 a') as [P N]; auto. split; [apply p_app; auto using pred_refl|].
        nl_solve.
      * destruct (is_value t2); cbn [negb] in Hs; [|discriminate].
        destruct t1; try discriminate. injection Hs as <-. split_hf. split_nl.
        split; [apply p_beta; auto using pred_refl | apply no_let_open; auto].
  - (* neg *)
    destruct (step t) as [a'|] eqn:S1.
    + injection Hs as <-. destruct (IHt a') as [P N]; auto. split; [apply p_neg; auto | exact N].
    + destruct t; try discriminate. injection Hs as <-. split; [apply p_negl | reflexivity].
  - (* bin *)
    destruct (step t1) as [a'|] eqn:S1.
    + injection Hs as <-. destruct (IHt1 a') as [P N]; auto. split; [apply p_bin; auto using pred_refl|].
      nl_solve.
    + destruct (is_value t1); cbn [negb] in Hs; [|discriminate].
      destruct (step t2) as [b'|] eqn:S2.
      * injection Hs as <-. destruct (IHt2 b') as [P N]; auto. split; [apply p_bin; auto using pred_refl|].
        nl_solve.
      * destruct t1; try discriminate. destruct t2; try discriminate.
        split; [now apply p_arith | eapply arith_no_let; eauto].
  - (* if *)
    destruct (step t1) as [c'|] eqn:S1.
    + injection Hs as <-. destruct (IHt1 c') as [P N]; auto. split; [apply p_if; auto using pred_refl|].
      nl_solve.
    + destruct t1; try discriminate; injection Hs as <-; split; auto; constructor; auto using pred_refl.
Qed.

Lemma evaluate_pstar : forall f t v, hole_free t = true -> no_let t = true -> evaluate f t = Some v ->
  pstar t v /\ no_let v = true.
Proof.
  induction f as [|f IH]; intros t v Hf Hn H; cbn [evaluate] in H; [discriminate|].
  destruct (step t) as [t'|] eqn:S; [|injection H as <-; split; [apply rt_refl | assumption]].
  destruct (step_pred _ _ Hf Hn S) as [P N].
  destruct (IH t' v (pred_hf_r _ _ P) N H) as [P' N']. split; [eapply pstar_step; eauto | assumption].
Qed.

(* ---------- the evaluator's step stays inside conv0 and preserves hole-freeness (groups included) ---------- *)
Lemma conv0s_refl : forall l, conv0s l l.
Proof. induction l as [|[a d] r IH]; constructor; auto using c0_refl. Qed.

Lemma group_unfold_conv0 ann d rest b : conv0 (TLet ((ann, d) :: rest) b) (group_unfold ann d rest b).
Proof.
  eapply c0_trans; [apply c0_red, r0_let|]. apply c0_sym. eapply c0_trans; [apply c0_red, r0_let|].
  unfold group_unfold, let_whnf_body. cbn [length]. rewrite map_length.
  cbn [let_subst nth_error]. replace (S (length rest) - 1 - 0) with (length rest) by lia.
  rewrite (open_from_ge _ 0 0) by lia. cbn [map fst snd].
  rewrite let_subst_cons. unfold unfold_def.
  replace (map (fun p : term * term => (open (fst p) (length rest) (unfold_first ann d (length rest)) 0,
                                        open (snd p) (length rest) (unfold_first ann d (length rest)) 0)) rest)
    with (map (fun p : term * term => let '(a, x) := p in
                 (open a (length rest) (unfold_first ann d (length rest)) 0, open x (length rest) (unfold_first ann d (length rest)) 0)) rest).
  - apply c0_refl.
  - apply map_ext. intros [a x]. reflexivity.
Qed.

Theorem step_conv0 : forall t t', step t = Some t' -> conv0 t t'.
Proof.
  induction t using term_ind'; intros t' Hs; cbn [step] in Hs; try discriminate.
  - destruct (step t1) as [f'|] eqn:S1.
    + injection Hs as <-. apply c0_app; [eauto | apply c0_refl].
    + destruct (is_value t1); cbn [negb] in Hs; [|discriminate].
      destruct (step t2) as [a'|] eqn:S2.
      * injection Hs as <-. apply c0_app; [apply c0_refl | eauto].
      * destruct (is_value t2); cbn [negb] in Hs; [|discriminate].
        destruct t1; try discriminate. injection Hs as <-. apply c0_red, r0_beta.
  - destruct ds as [|[ann d] rest].
    + injection Hs as <-. apply c0_red. apply (r0_let [] t).
    + inversion H as [|? ? [_ IHd] _]; subst. cbn [snd] in IHd.
      destruct (step d) as [d'|] eqn:Sd.
      * injection Hs as <-. apply c0_let; [|apply c0_refl].
        constructor; [eauto | apply conv0s_refl].
      * destruct (is_value d); cbn [negb] in Hs; [|discriminate]. injection Hs as <-.
        apply group_unfold_conv0.
  - destruct (step t) as [a'|] eqn:S1.
    + injection Hs as <-. apply c0_neg; eauto.
    + destruct t; try discriminate. injection Hs as <-. apply c0_red, r0_neg.
  - destruct (step t1) as [a'|] eqn:S1.
    + injection Hs as <-. apply c0_bin; [eauto | apply c0_refl].
    + destruct (is_value t1); cbn [negb] in Hs; [|discriminate].
      destruct (step t2) as [b'|] eqn:S2.
      * injection Hs as <-. apply c0_bin; [apply c0_refl | eauto].
      * destruct t1; try discriminate. destruct t2; try discriminate. apply c0_red, r0_bin. exact Hs.
  - destruct (step t1) as [c'|] eqn:S1.
    + injection Hs as <-. apply c0_if; [eauto | apply c0_refl | apply c0_refl].
    + destruct t1; try discriminate; injection Hs as <-; apply c0_red; constructor.
Qed.

Theorem step_hf : forall t t', hole_free t = true -> step t = Some t' -> hole_free t' = true.
Proof.
  induction t using term_ind'; intros t' Hf Hs; cbn [step] in Hs; try discriminate; split_hf.
  - destruct (step t1) as [f'|] eqn:S1.
    + injection Hs as <-. cbn [hole_free]. apply andb_true_intro; split; eauto.
    + destruct (is_value t1); cbn [negb] in Hs; [|discriminate].
      destruct (step t2) as [a'|] eqn:S2.
      * injection Hs as <-. cbn [hole_free]. apply andb_true_intro; split; eauto.
      * destruct (is_value t2); cbn [negb] in Hs; [|discriminate].
        destruct t1; try discriminate. injection Hs as <-. split_hf. apply hole_free_open; auto.
  - destruct ds as [|[ann d] rest].
    + injection Hs as <-. assumption.
    + inversion H as [|? ? [_ IHd] _]; subst. cbn [snd] in IHd. cbn [forallb] in H0. split_hf.
      destruct (step d) as [d'|] eqn:Sd.
      * injection Hs as <-. apply hf_let; [apply hf_defs_cons; eauto | assumption].
      * destruct (is_value d); cbn [negb] in Hs; [|discriminate]. injection Hs as <-.
        assert (Hu : hole_free (unfold_first ann d (length rest)) = true) by (apply hole_free_unfold_first; auto).
        apply hf_let; [|apply hole_free_open; auto].
        apply hf_defs_map. intros a x Hin. cbn [fst snd].
        match goal with K : forallb _ rest = true |- _ => destruct (hf_defs_In _ _ _ K Hin) end.
        split; apply hole_free_open; auto.
  - destruct (step t) as [a'|] eqn:S1.
    + injection Hs as <-. cbn [hole_free]. auto.
    + destruct t; try discriminate. injection Hs as <-. reflexivity.
  - destruct (step t1) as [a'|] eqn:S1.
    + injection Hs as <-. cbn [hole_free]. apply andb_true_intro; split; eauto.
    + destruct (is_value t1); cbn [negb] in Hs; [|discriminate].
      destruct (step t2) as [b'|] eqn:S2.
      * injection Hs as <-. cbn [hole_free]. apply andb_true_intro; split; eauto.
      * destruct t1; try discriminate. destruct t2; try discriminate. eapply arith_hole_free; eauto.
  - destruct (step t1) as [c'|] eqn:S1.
    + injection Hs as <-. cbn [hole_free]. repeat (apply andb_true_intro; split); eauto.
    + destruct t1; try discriminate; injection Hs as <-; assumption.
Qed.

Lemma evaluate_conv0 : forall f t v, hole_free t = true -> evaluate f t = Some v ->
  conv0 t v /\ hole_free v = true.
Proof.
  induction f as [|f IH]; intros t v Hf H; cbn [evaluate] in H; [discriminate|].
  destruct (step t) as [t'|] eqn:S; [|injection H as <-; split; [apply c0_refl | assumption]].
  destruct (IH t' v (step_hf _ _ Hf S) H) as [C F]. split; [|assumption].
  eapply c0_trans; [apply step_conv0; eassumption | assumption].
Qed.

(* ---------- the normaliser's reductions (empty context) are red0 steps ---------- *)
Lemma red_nil_red0 a b : red [] a b -> red0 a b.
Proof.
  induction 1; try (constructor; auto; fail).
  unfold lookup_def in H. destruct i; discriminate.
Qed.

Lemma rstar_nil_pstar a b : rstar [] a b -> hole_free a = true -> pstar a b /\ hole_free b = true.
Proof.
  unfold rstar. induction 1 as [a b R | a | a b c _ IH1 _ IH2]; intros Hf.
  - apply red_nil_red0 in R. split; [apply rt_step; now apply red0_pred | eapply red0_hf; eauto].
  - split; [apply rt_refl | assumption].
  - destruct IH1 as (P1 & F1); auto. destruct IH2 as (P2 & F2); auto.
    split; [eapply rt_trans; eauto | assumption].
Qed.

(* ---------- the shape of weak-head normal forms ---------- *)
Fixpoint wn (t : term) : bool :=
  match t with
  | TApp a _ => wn a && negb (is_lam a)
  | TNeg a => wn a && negb (is_lit a)
  | TBin o a b =>
      wn a && wn b &&
      match a, b with TLit x, TLit y => match arith o x y with Some _ => false | None => true end | _, _ => true end
  | TIf c _ _ => wn c && negb (is_boolc c)
  | TLet _ _ => false
  | _ => true
  end.

Lemma arith_wn o x y r : arith o x y = Some r -> wn r = true.
Proof.
  destruct o; cbn; try (intros [= <-]; reflexivity);
    try (intros [= <-]; match goal with |- context[if ?b then _ else _] => destruct b end; reflexivity).
  destruct (y =? 0)%Z; [discriminate|]. intros [= <-]. reflexivity.
Qed.

Lemma wn_bin o a b : wn a = true -> wn b = true ->
  (forall x y, a = TLit x -> b = TLit y -> arith o x y = None) -> wn (TBin o a b) = true.
Proof.
  intros W1 W2 Hc. cbn [wn]. rewrite W1, W2. cbn [andb].
  destruct a; try reflexivity. destruct b; try reflexivity. now rewrite (Hc _ _ eq_refl eq_refl).
Qed.

Lemma whnf_wn : forall fuel G t u, whnf fuel G t = Some u -> wn u = true.
Proof.
  induction fuel as [|f IH]; intros G t u H; [discriminate|].
  destruct t; cbn [whnf] in H; try (injection H as <-; reflexivity).
  - destruct (lookup_def G i); [eauto | injection H as <-; reflexivity].
  - destruct (whnf f G t1) as [a'|] eqn:E; [|discriminate]. pose proof (IH _ _ _ E) as W.
    destruct a'; try (injection H as <-; cbn [wn is_lam negb]; rewrite ?andb_true_r; exact W). eauto.
  - eauto.
  - destruct (whnf f G t) as [a'|] eqn:E; [|discriminate]. pose proof (IH _ _ _ E) as W.
    destruct a'; injection H as <-; cbn [wn is_lit negb]; rewrite ?andb_true_r; try exact W; reflexivity.
  - destruct (whnf f G t1) as [a'|] eqn:E1; [|discriminate].
    destruct (whnf f G t2) as [b'|] eqn:E2; [|destruct a'; discriminate].
    pose proof (IH _ _ _ E1) as W1. pose proof (IH _ _ _ E2) as W2.
    destruct a'; try (injection H as <-; apply wn_bin; auto; intros; discriminate);
    destruct b'; try (injection H as <-; apply wn_bin; auto; intros; discriminate).
    injection H as <-.
    match goal with |- context[arith ?o ?x ?y] => destruct (arith o x y) eqn:A end; [eapply arith_wn; eauto|].
    apply wn_bin; auto. intros x y [= <-] [= <-]. exact A.
  - destruct (whnf f G t1) as [c'|] eqn:E; [|discriminate]. pose proof (IH _ _ _ E) as W.
    destruct c'; try (injection H as <-; cbn [wn is_boolc negb]; rewrite ?andb_true_r; exact W); eauto.
Qed.

(* a weak-head normal form keeps its head former (and stays weak-head normal) under parallel reduction *)
Lemma former_lam t : is_lam t = true <-> former_of t = FLam.
Proof. destruct t; cbn; try (split; intros; discriminate); try tauto. destruct o; split; discriminate. Qed.
Lemma former_lit_inv t : former_of t = FLit -> exists z, t = TLit z.
Proof. destruct t; try discriminate; eauto. destruct o; discriminate. Qed.
Lemma former_true_inv t : former_of t = FTrue -> t = TTrue.
Proof. destruct t; try discriminate; eauto. destruct o; discriminate. Qed.
Lemma former_false_inv t : former_of t = FFalse -> t = TFalse.
Proof. destruct t; try discriminate; eauto. destruct o; discriminate. Qed.

Lemma is_lam_former a a' : former_of a' = former_of a -> is_lam a' = is_lam a.
Proof.
  intros E. destruct (is_lam a) eqn:L.
  - apply former_lam. rewrite E. now apply former_lam.
  - destruct (is_lam a') eqn:L'; [|reflexivity]. apply former_lam in L'. rewrite E in L'. apply former_lam in L'. congruence.
Qed.
Lemma former_lit t : is_lit t = true <-> former_of t = FLit.
Proof. destruct t; cbn; try (split; intros; discriminate); try tauto. destruct o; split; discriminate. Qed.
Lemma former_boolc t : is_boolc t = true <-> (former_of t = FTrue \/ former_of t = FFalse).
Proof.
  destruct t; cbn; try (split; [intros; discriminate | intros [?|?]; discriminate]); try tauto.
  destruct o; (split; [intros; discriminate | intros [?|?]; discriminate]).
Qed.
Lemma is_lit_former a a' : former_of a' = former_of a -> is_lit a' = is_lit a.
Proof.
  intros E. destruct (is_lit a) eqn:L.
  - apply former_lit. rewrite E. now apply former_lit.
  - destruct (is_lit a') eqn:L'; [|reflexivity]. apply former_lit in L'. rewrite E in L'. apply former_lit in L'. congruence.
Qed.
Lemma is_boolc_former a a' : former_of a' = former_of a -> is_boolc a' = is_boolc a.
Proof.
  intros E. destruct (is_boolc a) eqn:L.
  - apply former_boolc. rewrite E. now apply former_boolc.
  - destruct (is_boolc a') eqn:L'; [|reflexivity]. apply former_boolc in L'. rewrite E in L'. apply former_boolc in L'. congruence.
Qed.

Lemma wn_pred_mut :
  (forall t t', pred t t' -> wn t = true -> wn t' = true /\ former_of t' = former_of t) /\
  (forall ds ds' : list (term * term), preds ds ds' -> True).
Proof.
  apply pred_mutind; intros; auto; try (split; reflexivity); cbn [wn] in *;
    repeat match goal with H : _ && _ = true |- _ => apply andb_prop in H; destruct H end; try discriminate.
  - (* app *) destruct H0 as [W E]; auto. split; [|reflexivity]. now rewrite W, (is_lam_former _ _ E).
  - (* neg *) destruct H0 as [W E]; auto. split; [|reflexivity]. now rewrite W, (is_lit_former _ _ E).
  - (* bin *)
    destruct H0 as [W1 E1]; auto. destruct H2 as [W2 E2]; auto. split; [|reflexivity]. rewrite W1, W2. cbn [andb].
    destruct a'; try reflexivity. destruct b'; try reflexivity.
    destruct (former_lit_inv a) as [x ->]; [now rewrite <- E1|].
    destruct (former_lit_inv b) as [y ->]; [now rewrite <- E2|].
    apply pred_lit_inv in H. apply pred_lit_inv in H1. injection H as ->. injection H1 as ->. exact H4.
  - (* if *) destruct H0 as [W E]; auto. split; [|reflexivity]. now rewrite W, (is_boolc_former _ _ E).
  - (* arith *) rewrite H in H1. discriminate.
Qed.

Lemma wn_pstar t t' : pstar t t' -> wn t = true -> wn t' = true /\ former_of t' = former_of t.
Proof.
  induction 1 as [a b P | a | a b c _ IH1 _ IH2]; intros W.
  - now apply wn_pred_mut.
  - auto.
  - destruct IH1 as [W1 E1]; auto. destruct IH2 as [W2 E2]; auto. split; [assumption | congruence].
Qed.

(* ---------- the coherence theorem ---------- *)
Theorem whnf_evaluate_former f f' t v w :
  hole_free t = true ->
  evaluate f t = Some v -> is_value v = true -> whnf f' [] t = Some w ->
  former_of w = former_of v /\ conv0 w v.
Proof.
  intros Hf He Hv Hw.
  destruct (evaluate_conv0 _ _ _ Hf He) as [Cv Fv].
  destruct (rstar_nil_pstar _ _ (whnf_sound _ _ _ _ Hw) Hf) as (Pw & Fw).
  assert (C : conv0 w v) by (eapply c0_trans; [apply c0_sym, pstar_conv0; eassumption | assumption]).
  split; [|assumption].
  destruct (church_rosser _ _ Fw Fv C) as (c & Hc1 & Hc2).
  assert (Wv : wn v = true) by (destruct v; try discriminate; reflexivity).
  destruct (wn_pstar _ _ Hc2 Wv) as [_ E1].
  destruct (wn_pstar _ _ Hc1 (whnf_wn _ _ _ _ Hw)) as [_ E2].
  congruence.
Qed.

Theorem whnf_evaluate_lit f f' t z w :
  hole_free t = true -> evaluate f t = Some (TLit z) -> whnf f' [] t = Some w -> w = TLit z.
Proof.
  intros Hf He Hw.
  destruct (whnf_evaluate_former f f' t (TLit z) w Hf He eq_refl Hw) as [E C].
  destruct (former_lit_inv w E) as [z' ->]. apply conv0_lit_inj in C. now subst.
Qed.

Theorem whnf_evaluate_true f f' t w :
  hole_free t = true -> evaluate f t = Some TTrue -> whnf f' [] t = Some w -> w = TTrue.
Proof.
  intros Hf He Hw.
  destruct (whnf_evaluate_former f f' t TTrue w Hf He eq_refl Hw) as [E _]. now apply former_true_inv.
Qed.

Theorem whnf_evaluate_false f f' t w :
  hole_free t = true -> evaluate f t = Some TFalse -> whnf f' [] t = Some w -> w = TFalse.
Proof.
  intros Hf He Hw.
  destruct (whnf_evaluate_former f f' t TFalse w Hf He eq_refl Hw) as [E _]. now apply former_false_inv.
Qed.

(* the conversion test cannot contradict evaluation either: two programs that evaluate to different
   literals are never accepted as convertible *)
Theorem convb_respects_evaluation f1 f2 f t1 t2 z1 z2 :
  hole_free t1 = true -> hole_free t2 = true ->
  evaluate f1 t1 = Some (TLit z1) -> evaluate f2 t2 = Some (TLit z2) -> z1 <> z2 ->
  convb f [] t1 t2 <> Some true.
Proof.
  intros F1 F2 E1 E2 Hz H.
  destruct f as [|f]; [discriminate|]. cbn [convb] in H.
  destruct (whnf f [] t1) as [w1|] eqn:W1; [|discriminate].
  destruct (whnf f [] t2) as [w2|] eqn:W2; [|discriminate].
  rewrite (whnf_evaluate_lit _ _ _ _ _ F1 E1 W1) in H.
  rewrite (whnf_evaluate_lit _ _ _ _ _ F2 E2 W2) in H.
  injection H as H. apply Z.eqb_eq in H. contradiction.
Qed.

(* evaluation is deterministic up to conv0, and two evaluations of convertible programs that end in
   literals end in the same literal *)
Theorem conv0_programs_same_literal f1 f2 t1 t2 z1 z2 :
  hole_free t1 = true -> hole_free t2 = true -> conv0 t1 t2 ->
  evaluate f1 t1 = Some (TLit z1) -> evaluate f2 t2 = Some (TLit z2) -> z1 = z2.
Proof.
  intros F1 F2 C E1 E2.
  destruct (evaluate_conv0 _ _ _ F1 E1) as [C1 _]. destruct (evaluate_conv0 _ _ _ F2 E2) as [C2 _].
  apply conv0_lit_inj. eauto using c0_trans, c0_sym.
Qed.

(* non-vacuity *)
Definition ex_prog : term :=
  TApp (TLam false TInt (TIf (TBin OLt (TVar 0) (TLit 10)) (TBin OProd (TVar 0) (TLit 2)) (TNeg (TVar 0))))
       (TBin OSum (TLit 3) (TLit 4)).
Example ex_prog_ok :
  hole_free ex_prog = true /\ no_let ex_prog = true /\
  evaluate 10 ex_prog = Some (TLit 14) /\ whnf 10 [] ex_prog = Some (TLit 14).
Proof. vm_compute. repeat split; reflexivity. Qed.
(* with a recursive definition group: factorial of 5 (fact_prog of Proofs/CbvProofs.v) *)
Example ex_fact_ok :
  hole_free CbvProofs.fact_prog = true /\
  evaluate 200 CbvProofs.fact_prog = Some (TLit 120) /\ whnf 200 [] CbvProofs.fact_prog = Some (TLit 120).
Proof. vm_compute. repeat split; reflexivity. Qed.

Print Assumptions whnf_evaluate_former.
Print Assumptions whnf_evaluate_lit.
Print Assumptions whnf_evaluate_true.
Print Assumptions whnf_evaluate_false.
Print Assumptions convb_respects_evaluation.
Print Assumptions conv0_programs_same_literal.
Print Assumptions step_conv0.
