(* Extraction of the executable models and verified oracles. ExtrOcamlBasic only: bool, list,
   option, prod, unit, sumbool map to OCaml's; nat, positive, N, Z stay extracted datatypes. *)
Require Extraction.
Require Import ExtrOcamlBasic.
From Coq Require Import List ZArith.
Require Import Gram.Model.Term Gram.Model.DeBruijn Gram.Model.Eval Gram.Spec.Cbv Gram.Spec.EvalEnv
  Gram.Model.Token Gram.Gen.TokenTables Gram.Model.Tokenizer Gram.Spec.TokenSpec
  Gram.Model.Grammar Gram.Gen.ParserSkeleton Gram.Gen.GrammarY Gram.Model.Parser Gram.Model.ParserPost Gram.Spec.ScopeSpec Gram.Gen.ValueForms Gram.Model.Printer Gram.Model.Listing Gram.Spec.ListingSpec Gram.Spec.Typing Gram.Oracle.Infer Gram.Model.ModelB.
Extraction Language OCaml.
Extraction "gram_model.ml"
  Z.add Z.mul Z.opp Z.sub Z.quotrem Z.compare Z.of_nat Z.to_nat
  sshift ushift open fvl occurs hole_free
  is_value step evaluate stuck_reason run_env obs_of_value obs_of_term
  tokenize asc partition_ok layout_ok kind_of all_kinds in_kinds E_spec S_spec is_lbv
  parse_top grammar all_nts skeleton memo_flags reassociate scope_spec syntax_tree print has_unused_implicit_pi listing overline spec_linenos reparse_in_scope whnf convb infer nf group_type bind enter tcB zonkB unifyB whnfB.
