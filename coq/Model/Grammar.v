(* Nonterminals of the parser (the `Nonterminal` enum of src/parser.rs = the nonterminals of grammar.y),
   the shape of a parse function's skeleton, and grammar productions. *)
From Coq Require Import List Bool Arith.
Import ListNotations.
Require Import Gram.Model.Token.

Inductive nt :=
| Term | Type_ | Variable_ | Lambda | LambdaImplicit | AnnotatedLambda | AnnotatedLambdaImplicit | Pi | PiImplicit
| NonDependentPi | Application | Let | Integer | IntegerLiteral | Negation | Sum | Difference | Product | Quotient
| LessThan | LessThanOrEqualTo | EqualTo | GreaterThan | GreaterThanOrEqualTo | Boolean | True_ | False_ | If | Group
| Atom | SmallTerm | MediumTerm | LargeTerm | HugeTerm | GiantTerm | JumboTerm.

Definition nt_index (n : nt) : nat :=
  match n with
  | Term => 0 | Type_ => 1 | Variable_ => 2 | Lambda => 3 | LambdaImplicit => 4 | AnnotatedLambda => 5
  | AnnotatedLambdaImplicit => 6 | Pi => 7 | PiImplicit => 8 | NonDependentPi => 9 | Application => 10 | Let => 11
  | Integer => 12 | IntegerLiteral => 13 | Negation => 14 | Sum => 15 | Difference => 16 | Product => 17
  | Quotient => 18 | LessThan => 19 | LessThanOrEqualTo => 20 | EqualTo => 21 | GreaterThan => 22
  | GreaterThanOrEqualTo => 23 | Boolean => 24 | True_ => 25 | False_ => 26 | If => 27 | Group => 28 | Atom => 29
  | SmallTerm => 30 | MediumTerm => 31 | LargeTerm => 32 | HugeTerm => 33 | GiantTerm => 34 | JumboTerm => 35
  end.
Definition nt_eqb (a b : nt) : bool := Nat.eqb (nt_index a) (nt_index b).
Lemma nt_eqb_eq a b : nt_eqb a b = true <-> a = b.
Proof.
  unfold nt_eqb. split; [|intros ->; apply Nat.eqb_refl].
  intros H. apply Nat.eqb_eq in H. destruct a; destruct b; try reflexivity; discriminate H.
Qed.

Definition all_nts : list nt :=
  [Term; Type_; Variable_; Lambda; LambdaImplicit; AnnotatedLambda; AnnotatedLambdaImplicit; Pi; PiImplicit;
   NonDependentPi; Application; Let; Integer; IntegerLiteral; Negation; Sum; Difference; Product; Quotient;
   LessThan; LessThanOrEqualTo; EqualTo; GreaterThan; GreaterThanOrEqualTo; Boolean; True_; False_; If; Group;
   Atom; SmallTerm; MediumTerm; LargeTerm; HugeTerm; GiantTerm; JumboTerm].

(* one statement of a regular parse function *)
Inductive pstep :=
| SConsume (k : tkind)       (* consume_token_0! / consume_token_1!: fail (return a ParseError) if absent *)
| STry (n : nt)              (* try_eval!(parse_n(..)): fail if the sub-parse fails *)
| SCommit (n : nt).          (* let (..) = parse_n(..): embed the result even if it is a ParseError *)

Inductive fdesc :=
| FChoice (alts : list nt)   (* try_return! on each alternative in order *)
| FSeq (steps : list pstep)
| FSpecial.                  (* parse_let, parse_if, parse_group: hand-modelled *)

(* grammar.y: terminals are token kinds; TERMINATOR stands for both terminator kinds *)
Inductive gsym := GT (k : tkind) | GTerminator | GN (n : nt).
Definition production := (nt * list gsym)%type.

Definition last_opt {A} (l : list A) : option A := match rev l with x :: _ => Some x | [] => None end.
