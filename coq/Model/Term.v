(* Model A terms: mirror of src/term.rs Variant (names and source ranges erased). *)
From Coq Require Import List ZArith Lia Bool Arith.
Import ListNotations.

Inductive binop := OSum | ODiff | OProd | OQuot | OLt | OLe | OEq | OGt | OGe.

Inductive term :=
| THole (id : nat) (shift : nat)
| TType | TInt | TBool | TTrue | TFalse
| TLit (z : Z)
| TVar (i : nat)
| TLam (impl : bool) (dom body : term)
| TPi (impl : bool) (dom cod : term)
| TApp (f a : term)
| TLet (defs : list (term * term)) (body : term)
| TNeg (a : term)
| TBin (o : binop) (a b : term)
| TIf (c t e : term).

Section ind.
  Variable P : term -> Prop.
  Hypotheses
    (Hhole : forall i s, P (THole i s)) (Hty : P TType) (Hint : P TInt) (Hbool : P TBool)
    (Htrue : P TTrue) (Hfalse : P TFalse) (Hlit : forall z, P (TLit z)) (Hvar : forall i, P (TVar i))
    (Hlam : forall i d b, P d -> P b -> P (TLam i d b))
    (Hpi : forall i d b, P d -> P b -> P (TPi i d b))
    (Happ : forall f a, P f -> P a -> P (TApp f a))
    (Hlet : forall ds b, Forall (fun p => P (fst p) /\ P (snd p)) ds -> P b -> P (TLet ds b))
    (Hneg : forall a, P a -> P (TNeg a))
    (Hbin : forall o a b, P a -> P b -> P (TBin o a b))
    (Hif : forall c t e, P c -> P t -> P e -> P (TIf c t e)).
  Fixpoint term_ind' (t : term) : P t :=
    match t with
    | THole i s => Hhole i s | TType => Hty | TInt => Hint | TBool => Hbool | TTrue => Htrue | TFalse => Hfalse
    | TLit z => Hlit z | TVar i => Hvar i
    | TLam i d b => Hlam i d b (term_ind' d) (term_ind' b)
    | TPi i d b => Hpi i d b (term_ind' d) (term_ind' b)
    | TApp f a => Happ f a (term_ind' f) (term_ind' a)
    | TLet ds b => Hlet ds b
        ((fix go (l : list (term*term)) : Forall (fun p => P (fst p) /\ P (snd p)) l :=
            match l with [] => Forall_nil _ | p::l' => Forall_cons p (conj (term_ind' (fst p)) (term_ind' (snd p))) (go l') end) ds)
        (term_ind' b)
    | TNeg a => Hneg a (term_ind' a)
    | TBin o a b => Hbin o a b (term_ind' a) (term_ind' b)
    | TIf c t e => Hif c t e (term_ind' c) (term_ind' t) (term_ind' e)
    end.
End ind.

Definition omap {A B} (f : A -> option B) : list A -> option (list B) :=
  fix go l := match l with [] => Some [] | a :: l' =>
    match f a with None => None | Some b => match go l' with None => None | Some bs => Some (b :: bs) end end end.

Definition obind {A B} (o : option A) (f : A -> option B) := match o with Some a => f a | None => None end.
Notation "x <- o ;; k" := (obind o (fun x => k)) (at level 60, o at next level, right associativity).


(* the 23 term formers of src/term.rs Variant, as an enumeration (for generated tables) *)
Inductive former :=
| FHole | FType | FVar | FLam | FPi | FApp | FLet | FInt | FLit | FNeg | FSum | FDiff | FProd | FQuot
| FLt | FLe | FEq | FGt | FGe | FBool | FTrue | FFalse | FIf.
Definition former_eq_dec : forall a b : former, {a = b} + {a <> b}.
Proof. decide equality. Defined.
Definition former_eqb (a b : former) : bool := if former_eq_dec a b then true else false.
Definition former_of (t : term) : former :=
  match t with
  | THole _ _ => FHole | TType => FType | TInt => FInt | TBool => FBool | TTrue => FTrue | TFalse => FFalse
  | TLit _ => FLit | TVar _ => FVar | TLam _ _ _ => FLam | TPi _ _ _ => FPi | TApp _ _ => FApp | TLet _ _ => FLet
  | TNeg _ => FNeg
  | TBin o _ _ => match o with OSum => FSum | ODiff => FDiff | OProd => FProd | OQuot => FQuot | OLt => FLt
                               | OLe => FLe | OEq => FEq | OGt => FGt | OGe => FGe end
  | TIf _ _ _ => FIf
  end.
Definition in_formers (l : list former) (t : term) : bool := existsb (former_eqb (former_of t)) l.
