(* Mirror of `listing` (src/error.rs) up to rendering: which lines are shown, with which 1-based
   numbers, and which section of each line is marked. Source text is a list of characters (code
   point, UTF-8 width, whitespace class); offsets are byte offsets. No proofs here. *)
From Coq Require Import List ZArith NArith Lia Bool Arith.
Import ListNotations.
Require Import Gram.Model.Token Gram.Model.Tokenizer.

(* split('\n'): the lines of the text, each with its byte length; the line break is not part of a line *)
Fixpoint split_lines (cs : list ch) (cur : list ch) : list (list ch) :=
  match cs with
  | [] => [rev cur]
  | c :: r => if N.eqb (cp c) c_nl then rev cur :: split_lines r [] else split_lines r (c :: cur)
  end.
Fixpoint bytes (l : list ch) : nat := match l with [] => 0 | c :: r => width c + bytes r end.

(* trim_end: drop trailing whitespace characters *)
Definition trim_end (l : list ch) : list ch :=
  rev ((fix drop (r : list ch) := match r with c :: r' => if ws c then drop r' else r | [] => [] end) (rev l)).
(* byte offset of the first non-whitespace character, if any *)
Fixpoint first_non_ws (l : list ch) (off : nat) : option nat :=
  match l with [] => None | c :: r => if ws c then first_non_ws r (off + width c) else Some off end.

Record shown := { lineno : nat; ltext : list ch (* trimmed *); sec_start : nat; sec_end : nat (* byte offsets in the line *) }.

(* the loop of `listing`: i = 0-based line index, pos = byte offset of the line's start *)
Fixpoint listing_lines (lines : list (list ch)) (i pos rs re : nat) : list shown :=
  match lines with
  | [] => []
  | line :: rest =>
      let line_start := pos in
      let pos' := pos + bytes line + 1 in
      if Nat.leb re line_start then []                         (* past the lines of interest: break *)
      else if Nat.leb pos' rs then listing_lines rest (S i) pos' rs re      (* not there yet: continue *)
      else
        let t := trim_end line in
        let tl := bytes t in
        let '(s, e) :=
          if Nat.ltb line_start rs then (Nat.min (rs - line_start) tl, Nat.min (re - line_start) tl)
          else let e := Nat.min (re - line_start) tl in
               (match first_non_ws t 0 with Some k => k | None => e end, e) in
        {| lineno := S i; ltext := t; sec_start := s; sec_end := e |} :: listing_lines rest (S i) pos' rs re
  end.

Definition listing (cs : list ch) (rs re : nat) : list shown := listing_lines (split_lines cs []) 0 0 rs re.

(* the number of characters in the byte prefix [0, k) of a line and in the section, as rendered
   (spaces before the overline, overline length) *)
Fixpoint chars_upto (l : list ch) (k : nat) : nat :=
  match l with [] => 0 | c :: r => if Nat.ltb 0 k then S (chars_upto r (k - width c)) else 0 end.
Definition overline (s : shown) : nat * nat :=
  (chars_upto (ltext s) (sec_start s), chars_upto (ltext s) (sec_end s) - chars_upto (ltext s) (sec_start s)).
