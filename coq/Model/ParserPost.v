(* Mirror of the passes that follow parsing in src/parser.rs: the three re-association passes,
   resolve_variables (names -> de Bruijn indices, with the exact insert / overwrite / remove behaviour
   of the name map), collect_definitions, check_definitions / check_definition. No proofs here. *)
From Coq Require Import List ZArith NArith Lia Bool Arith.
Import ListNotations.
Require Import Gram.Model.Term Gram.Model.DeBruijn Gram.Model.Eval Gram.Model.Token Gram.Model.Grammar Gram.Model.Parser.

(* ---------------------------------------------------------------- re-association *)
Inductive chain := ChApp | ChMul | ChAdd.
(* which operator of the chain kind a binary node is, if any *)
Definition chain_op (k : chain) (t : pterm) : option (binop * pterm * pterm) :=
  match k, t with
  | ChApp, PApp _ f a => Some (OSum, f, a)          (* the operator is irrelevant for applications *)
  | ChMul, PBin _ OProd a b => Some (OProd, a, b)
  | ChMul, PBin _ OQuot a b => Some (OQuot, a, b)
  | ChAdd, PBin _ OSum a b => Some (OSum, a, b)
  | ChAdd, PBin _ ODiff a b => Some (ODiff, a, b)
  | _, _ => None
  end.
Definition mk_chain (k : chain) (i : pinfo) (o : binop) (a b : pterm) : pterm :=
  match k with ChApp => PApp i a b | _ => PBin i o a b end.
Definition grp (t : pterm) : bool := pgroup (info t).
Definition rstart (t : pterm) := prs (info t).
Definition rend (t : pterm) := pre (info t).
Definition same_info (t : pterm) : pinfo := mk (rstart t) (rend t) (grp t) 0.

Fixpoint reassoc (k : chain) (acc : option (pterm * binop)) (t : pterm) {struct t} : pterm :=
  let r0 := reassoc k None in
  (* the match of the Rust function for a given accumulator *)
  let core (acc : option (pterm * binop)) : pterm :=
    let wrap (reduced : pterm) : pterm :=
      match acc with
      | Some (a, o) => mk_chain k (mk (rstart a) (rend reduced) true 0) o a reduced
      | None => reduced
      end in
    match t with
    | PError _ => t          (* unreachable: [ref:error_check] *)
    | PType _ | PInt _ | PBool _ | PTrue _ | PFalse _ | PVar _ _ | PLit _ _ => wrap (with_info t (same_info t))
    | PLam _ x xs xe im d b => wrap (PLam (same_info t) x xs xe im (match d with Some d => Some (r0 d) | None => None end) (r0 b))
    | PPi _ x xs xe im d c => wrap (PPi (same_info t) x xs xe im (r0 d) (r0 c))
    | PLet _ x xs xe an d b => wrap (PLet (same_info t) x xs xe (match an with Some a => Some (r0 a) | None => None end) (r0 d) (r0 b))
    | PNeg _ a => wrap (PNeg (same_info t) (r0 a))
    | PIf _ c a b => wrap (PIf (same_info t) (r0 c) (r0 a) (r0 b))
    | PApp _ f a =>
        match k with
        | ChApp =>
            if grp a then
              match acc with
              | Some (ac, o) => PApp (mk (rstart ac) (rend a) true 0) (reassoc k acc f) (r0 a)
              | None => PApp (same_info t) (r0 f) (r0 a)
              end
            else
              let acc' := match acc with
                          | Some (ac, o) => PApp (mk (rstart ac) (rend f) true 0) ac (r0 f)
                          | None => r0 f end in
              reassoc k (Some (acc', OSum)) a
        | _ => wrap (PApp (same_info t) (r0 f) (r0 a))
        end
    | PBin _ o a b =>
        match chain_op k t with
        | Some (o', _, _) =>
            if grp b then
              match acc with
              | Some (ac, _) => PBin (mk (rstart ac) (rend b) true 0) o' (reassoc k acc a) (r0 b)
              | None => PBin (same_info t) o' (r0 a) (r0 b)
              end
            else
              let acc' := match acc with
                          | Some (ac, oa) => PBin (mk (rstart ac) (rend a) true 0) oa ac (r0 a)
                          | None => r0 a end in
              reassoc k (Some (acc', o')) b
        | None => wrap (PBin (same_info t) o (r0 a) (r0 b))
        end
    end in
  match acc with
  | Some (a, o) =>
      (* a parenthesised term is atomic as far as the accumulator is concerned *)
      if grp t then let reduced := core None in mk_chain k (mk (rstart a) (rend reduced) true 0) o a reduced
      else core acc
  | None => core None
  end.

Definition reassociate (t : pterm) : pterm := reassoc ChAdd None (reassoc ChMul None (reassoc ChApp None t)).

(* ---------------------------------------------------------------- variable resolution *)
Definition name_eqb (a b : name) : bool :=
  (fix eq (a b : list N) := match a, b with [] , [] => true | x :: a', y :: b' => N.eqb x y && eq a' b' | _, _ => false end) a b.
Definition placeholder : name := [95%N].
Definition ctx := list (name * nat).      (* the HashMap<&str, usize>: at most one entry per name *)
Definition ctx_get (c : ctx) (x : name) : option nat :=
  match find (fun p => name_eqb (fst p) x) c with Some (_, d) => Some d | None => None end.
Definition ctx_remove (c : ctx) (x : name) : ctx := filter (fun p => negb (name_eqb (fst p) x)) c.
Definition ctx_insert (c : ctx) (x : name) (d : nat) : ctx := (x, d) :: ctx_remove c x.

(* Resolved terms keep binder names (for printing) next to Model A terms: the names are returned as a
   separate pre-order list so that Model A stays nameless. Holes are numbered in creation order. *)
Record rstate := { rerrs : nat; rnext_hole : nat; rnames : list name (* reversed *) }.
Definition radd_err (s : rstate) := {| rerrs := S (rerrs s); rnext_hole := rnext_hole s; rnames := rnames s |}.
Definition rfresh (s : rstate) : nat * rstate :=
  (rnext_hole s, {| rerrs := rerrs s; rnext_hole := S (rnext_hole s); rnames := rnames s |}).
Definition rname (s : rstate) (x : name) := {| rerrs := rerrs s; rnext_hole := rnext_hole s; rnames := x :: rnames s |}.

Fixpoint collect_definitions (t : pterm) : list (name * option pterm * pterm) * pterm :=
  match t with
  | PLet _ x _ _ an d b => let '(ds, body) := collect_definitions b in ((x, an, d) :: ds, body)
  | _ => ([], t)
  end.

(* binder bookkeeping shared by the Lambda and Pi arms *)
Definition enter_binder (c : ctx) (x : name) (depth : nat) (s : rstate) : ctx * rstate :=
  if name_eqb x placeholder then (c, s)
  else ((ctx_insert c x depth), (match ctx_get c x with Some _ => radd_err s | None => s end)).

Fixpoint resolve (fuel : nat) (t : pterm) (depth : nat) (c : ctx) (s : rstate) : term * ctx * rstate :=
  match fuel with
  | O => (TType, c, radd_err s)
  | S f =>
    match t with
    | PError _ => (TType, c, radd_err s)      (* unreachable: [ref:error_check] *)
    | PType _ => (TType, c, s) | PInt _ => (TInt, c, s) | PBool _ => (TBool, c, s)
    | PTrue _ => (TTrue, c, s) | PFalse _ => (TFalse, c, s) | PLit _ z => (TLit z, c, s)
    | PVar _ x =>
        match ctx_get c x with
        | Some vd => (TVar (depth - 1 - vd), c, rname s x)
        | None =>
            let s1 := if name_eqb x placeholder then s else radd_err s in
            let '(h, s2) := rfresh s1 in (THole h 0, c, s2)
        end
    | PLam _ x _ _ im d b =>
        let '(d', c1, s1) := match d with
                             | Some d => resolve f d depth c s
                             | None => let '(h, s1) := rfresh s in (THole h 0, c, s1) end in
        let '(c2, s2) := enter_binder c1 x depth s1 in
        let '(b', c3, s3) := resolve f b (S depth) c2 (rname s2 x) in
        (TLam im d' b', ctx_remove c3 x, s3)
    | PPi _ x _ _ im d b =>
        let '(d', c1, s1) := resolve f d depth c s in
        let '(c2, s2) := enter_binder c1 x depth s1 in
        let '(b', c3, s3) := resolve f b (S depth) c2 (rname s2 x) in
        (TPi im d' b', ctx_remove c3 x, s3)
    | PApp _ g a =>
        let '(g', c1, s1) := resolve f g depth c s in
        let '(a', c2, s2) := resolve f a depth c1 s1 in (TApp g' a', c2, s2)
    | PLet _ _ _ _ _ _ _ =>
        let '(defs, body) := collect_definitions t in
        let n := length defs in
        (* add the definitions to the context *)
        let '(c1, s1, added, _) :=
          fold_left (fun (st : ctx * rstate * list name * nat) (df : name * option pterm * pterm) =>
                       let '(c, s, added, i) := st in
                       let x := fst (fst df) in
                       if name_eqb x placeholder then (c, s, added, S i)
                       else (ctx_insert c x (depth + i), (match ctx_get c x with Some _ => radd_err s | None => s end), x :: added, S i))
                    defs (c, s, [], 0) in
        let nd := depth + n in
        let '(rdefs, c2, s2, _) :=
          fold_left (fun (st : list (term * term) * ctx * rstate * nat) (df : name * option pterm * pterm) =>
                       let '(acc, c, s, i) := st in
                       let '(x, an, d) := df in
                       let s0 := rname s x in
                       let '(an', c', s') := match an with
                                             | Some a => resolve f a nd c s0
                                             | None => let '(h, s1) := rfresh s0 in (THole h (n - i), c, s1) end in
                       let '(d', c'', s'') := resolve f d nd c' s' in
                       (acc ++ [(an', d')], c'', s'', S i))
                    defs ([], c1, s1, 0) in
        let '(b', c3, s3) := resolve f body nd c2 s2 in
        (TLet rdefs b', fold_left ctx_remove (rev added) c3, s3)
    | PNeg _ a => let '(a', c1, s1) := resolve f a depth c s in (TNeg a', c1, s1)
    | PBin _ o a b =>
        let '(a', c1, s1) := resolve f a depth c s in
        let '(b', c2, s2) := resolve f b depth c1 s1 in (TBin o a' b', c2, s2)
    | PIf _ cd a b =>
        let '(c', c1, s1) := resolve f cd depth c s in
        let '(a', c2, s2) := resolve f a depth c1 s1 in
        let '(b', c3, s3) := resolve f b depth c2 s2 in (TIf c' a' b', c3, s3)
    end
  end.

Fixpoint psize (t : pterm) : nat :=
  S match t with
    | PLam _ _ _ _ _ d b => (match d with Some d => psize d | None => 0 end) + psize b
    | PPi _ _ _ _ _ d b => psize d + psize b
    | PApp _ f a => psize f + psize a
    | PLet _ _ _ _ an d b => (match an with Some a => psize a | None => 0 end) + psize d + psize b
    | PNeg _ a => psize a
    | PBin _ _ a b => psize a + psize b
    | PIf _ c t e => psize c + psize t + psize e
    | _ => 0
    end.

(* ---------------------------------------------------------------- definition order *)
(* check_definition: depth-first walk over the free group variables of a definition, in increasing
   index order; every value definition reached is walked in turn, every non-value definition reached
   at or after the starting one is an error *)
Definition sort_dedup (l : list nat) : list nat :=
  (fix ins_all (l acc : list nat) := match l with [] => acc | x :: r =>
      ins_all r ((fix ins (x : nat) (a : list nat) := match a with [] => [x] | y :: a' =>
                    if Nat.ltb x y then x :: a else if Nat.eqb x y then a else y :: ins x a' end) x acc) end) l [].

Fixpoint check_definition (fuel : nat) (defs : list (term * term)) (start cur : nat) (visited : list nat) (errs : nat)
  : list nat * nat :=
  match fuel with
  | O => (visited, errs)
  | S f =>
    let n := length defs in
    match nth_error defs cur with
    | None => (visited, errs)
    | Some (_, d) =>
        fold_left (fun (st : list nat * nat) (v : nat) =>
                     let '(visited, errs) := st in
                     if Nat.ltb v n then
                       let di := n - 1 - v in
                       if existsb (Nat.eqb di) visited then (visited, errs)
                       else
                         let visited := di :: visited in
                         match nth_error defs di with
                         | Some (_, dd) =>
                             if is_value dd then check_definition f defs start di visited errs
                             else if Nat.leb start di then (visited, S errs) else (visited, errs)
                         | None => (visited, errs)
                         end
                     else (visited, errs))
                  (sort_dedup (fvl d 0)) (visited, errs)
    end
  end.

Inductive cdres := CDOk (errs : nat) | CDPanic.
Definition cd_add (a b : cdres) : cdres := match a, b with CDOk x, CDOk y => CDOk (x + y) | _, _ => CDPanic end.

Fixpoint check_definitions (t : term) : cdres :=
  match t with
  | TType | TInt | TBool | TTrue | TFalse | TLit _ | TVar _ => CDOk 0
  | THole _ sh => if Nat.eqb sh 0 then CDOk 0 else CDPanic      (* the assert_eq on the shift being 0 *)
  | TLam _ d b | TPi _ d b => cd_add (check_definitions d) (check_definitions b)
  | TApp a b | TBin _ a b => cd_add (check_definitions a) (check_definitions b)
  | TNeg a => check_definitions a
  | TIf c a b => cd_add (check_definitions c) (cd_add (check_definitions a) (check_definitions b))
  | TLet ds b =>
      let per :=
        (fix go (l : list (term * term)) (i : nat) : cdres :=
           match l with
           | [] => CDOk 0
           | (_, d) :: r =>
               cd_add (check_definitions d)
                 (cd_add (if is_value d then CDOk 0 else CDOk (snd (check_definition (S (length ds)) ds i i [] 0)))
                         (go r (S i)))
           end) ds 0 in
      cd_add per (check_definitions b)
  end.

(* ---------------------------------------------------------------- parse() *)
Inductive presult :=
| POk (t : term) (names : list name)
| PErr (nerr : nat)
| PPanic
| POutOfFuel.

Definition parse_top (toks : list ptok) (use_memo : bool) (context : list name) : presult * nat * nat :=
  let '(st, misses, scans) := parse_stage1 toks use_memo in
  (match st with
   | S1Fuel => POutOfFuel
   | S1Errors n => PErr n
   | S1Panic => PPanic
   | S1Tree t =>
       let r := reassociate t in
       let c0 : ctx := (fix mk (l : list name) (i : nat) : ctx := match l with [] => [] | x :: r => (x, i) :: mk r (S i) end) context 0 in
       let '(rt, _, s) := resolve (S (psize r)) r (length context) c0 {| rerrs := 0; rnext_hole := 0; rnames := [] |} in
       match check_definitions rt with
       | CDPanic => if Nat.eqb (rerrs s) 0 then PPanic else PPanic
       | CDOk e => if Nat.eqb (rerrs s + e) 0 then POk rt (rev (rnames s)) else PErr (rerrs s + e)
       end
   end, misses, scans).
