(* Model B: a storeB-passing mirror of the hole-aware code of src/de_bruijn.rs (signed_shift / open on
   Unifier cells), src/normalizer.rs, src/equality.rs, src/unifier.rs and src/type_checker.rs.
   A storeB is a list of cells (None = unresolved); a hole is (cell id, shift). `open` on an unresolved
   hole allocates a FRESH cell, exactly as the implementation does (recorded finding D9). Every
   function runs on fuel and returns None when it is exhausted. No proofs here. *)
From Coq Require Import List ZArith Lia Bool Arith.
Import ListNotations.
Require Import Gram.Model.Term Gram.Model.DeBruijn.

Definition storeB := list (option term).
Definition sget (s : storeB) (id : nat) : option term := match nth_error s id with Some (Some t) => Some t | _ => None end.
Fixpoint sset (s : storeB) (id : nat) (t : term) : storeB :=
  match s, id with
  | [], _ => []
  | _ :: r, O => Some t :: r
  | x :: r, S n => x :: sset r n t
  end.
Definition salloc (s : storeB) : nat * storeB := (length s, s ++ [None]).

(* results: None = out of fuel *)
Notation "x <- o ;; k" := (match o with Some x => k | None => None end) (at level 60, o at next level, right associativity).

(* ---- signed_shift with holes: a solved hole is inlined, an unsolved one keeps its cell ---- *)
Fixpoint sshiftB (fuel : nat) (s : storeB) (t : term) (c : nat) (k : Z) : option (option term) :=
  match fuel with O => None | S f =>
  let rec t c := sshiftB f s t c k in
  let bind2 (a b : option (option term)) (g : term -> term -> term) : option (option term) :=
    x <- a ;; y <- b ;; Some (match x, y with Some x', Some y' => Some (g x' y') | _, _ => None end) in
  match t with
  | THole id sh =>
      match sget s id with
      | Some sol => u <- sshiftB f s sol 0 (Z.of_nat sh) ;;
                    match u with Some sol' => sshiftB f s sol' c k | None => Some None end
      | None => Some (match shift_idx sh c k with Some sh' => Some (THole id sh') | None => None end)
      end
  | TType | TInt | TBool | TTrue | TFalse | TLit _ => Some (Some t)
  | TVar i => Some (match shift_idx i c k with Some i' => Some (TVar i') | None => None end)
  | TLam im d b => bind2 (rec d c) (rec b (S c)) (TLam im)
  | TPi im d b => bind2 (rec d c) (rec b (S c)) (TPi im)
  | TApp a b => bind2 (rec a c) (rec b c) TApp
  | TLet ds b =>
      let c' := length ds + c in
      ds' <- (fix go (l : list (term * term)) : option (option (list (term * term))) :=
                match l with
                | [] => Some (Some [])
                | (a, d) :: r => a' <- rec a c' ;; d' <- rec d c' ;; r' <- go r ;;
                    Some (match a', d', r' with Some x, Some y, Some z => Some ((x, y) :: z) | _, _, _ => None end)
                end) ds ;;
      b' <- rec b c' ;;
      Some (match ds', b' with Some x, Some y => Some (TLet x y) | _, _ => None end)
  | TNeg a => a' <- rec a c ;; Some (option_map TNeg a')
  | TBin o a b => bind2 (rec a c) (rec b c) (TBin o)
  | TIf a b e => a' <- rec a c ;; b' <- rec b c ;; e' <- rec e c ;;
      Some (match a', b', e' with Some x, Some y, Some z => Some (TIf x y z) | _, _, _ => None end)
  end end.

Definition ushiftB fuel s t c n : option term :=
  r <- sshiftB fuel s t c (Z.of_nat n) ;; r.       (* total for n >= 0; None only when out of fuel *)

(* ---- open with holes: an UNSOLVED hole is replaced by a FRESH cell (finding D9) ---- *)
Fixpoint openB (fuel : nat) (s : storeB) (t : term) (i : nat) (x : term) (k : nat) : option (term * storeB) :=
  match fuel with O => None | S f =>
  match t with
  | THole id sh =>
      match sget s id with
      | Some sol => sol' <- ushiftB f s sol 0 sh ;; openB f s sol' i x k
      | None => let '(id', s') := salloc s in Some (THole id' (if Nat.ltb i sh then sh - 1 else sh), s')
      end
  | TType | TInt | TBool | TTrue | TFalse | TLit _ => Some (t, s)
  | TVar j => if Nat.eqb j i then (x' <- ushiftB f s x 0 k ;; Some (x', s)) else Some (TVar (open_idx j i), s)
  | TLam im d b => p <- openB f s d i x k ;; let '(d', s1) := p in
                   q <- openB f s1 b (S i) x (S k) ;; let '(b', s2) := q in Some (TLam im d' b', s2)
  | TPi im d b => p <- openB f s d i x k ;; let '(d', s1) := p in
                  q <- openB f s1 b (S i) x (S k) ;; let '(b', s2) := q in Some (TPi im d' b', s2)
  | TApp a b => p <- openB f s a i x k ;; let '(a', s1) := p in
                q <- openB f s1 b i x k ;; let '(b', s2) := q in Some (TApp a' b', s2)
  | TLet ds b =>
      let n := length ds in
      r <- (fix go (l : list (term * term)) (s0 : storeB) : option (list (term * term) * storeB) :=
              match l with
              | [] => Some ([], s0)
              | (a, d) :: r => p <- openB f s0 a (n + i) x (n + k) ;; let '(a', s1) := p in
                               q <- openB f s1 d (n + i) x (n + k) ;; let '(d', s2) := q in
                               z <- go r s2 ;; let '(r', s3) := z in Some ((a', d') :: r', s3)
              end) ds s ;;
      let '(ds', s1) := r in
      q <- openB f s1 b (n + i) x (n + k) ;; let '(b', s2) := q in Some (TLet ds' b', s2)
  | TNeg a => p <- openB f s a i x k ;; let '(a', s1) := p in Some (TNeg a', s1)
  | TBin o a b => p <- openB f s a i x k ;; let '(a', s1) := p in
                  q <- openB f s1 b i x k ;; let '(b', s2) := q in Some (TBin o a' b', s2)
  | TIf a b e => p <- openB f s a i x k ;; let '(a', s1) := p in
                 q <- openB f s1 b i x k ;; let '(b', s2) := q in
                 z <- openB f s2 e i x k ;; let '(e', s3) := z in Some (TIf a' b' e', s3)
  end end.

(* ---- contexts: head = innermost ---- *)
Definition tctx := list (term * nat).
Definition dctx := list (option (term * nat)).

Definition bin_whnf (o : binop) (x y : Z) : option term :=
  match o with
  | OSum => Some (TLit (x + y)) | ODiff => Some (TLit (x - y)) | OProd => Some (TLit (x * y))
  | OQuot => if (y =? 0)%Z then None else Some (TLit (Z.quot x y))
  | OLt => Some (if (x <? y)%Z then TTrue else TFalse) | OLe => Some (if (x <=? y)%Z then TTrue else TFalse)
  | OEq => Some (if (x =? y)%Z then TTrue else TFalse) | OGt => Some (if (x >? y)%Z then TTrue else TFalse)
  | OGe => Some (if (x >=? y)%Z then TTrue else TFalse)
  end.

(* the `Let` arm of normalize_weak_head: substitute every definition, in order *)
Fixpoint let_substB (fuel : nat) (s : storeB) (n i : nat) (ds : list (term * term)) (body : term)
  : option (term * storeB) :=
  match fuel with O => None | S f =>
  if Nat.leb n i then Some (body, s) else
  match nth_error ds i with
  | None => Some (body, s)
  | Some (ann, def) =>
      let idx := n - 1 - i in
      a1 <- ushiftB f s ann 0 1 ;; d1 <- ushiftB f s def 0 1 ;;
      p <- openB f s a1 (S idx) (TVar 0) 0 ;; let '(a2, s1) := p in
      q <- openB f s1 d1 (S idx) (TVar 0) 0 ;; let '(d2, s2) := q in
      r <- openB f s2 def idx (TLet [(a2, d2)] (TVar 0)) 0 ;; let '(unf, s3) := r in
      z <- (fix go (l : list (term * term)) (j : nat) (s0 : storeB) : option (list (term * term) * storeB) :=
              match l with
              | [] => Some ([], s0)
              | (a, d) :: rest =>
                  if Nat.ltb j i then (w <- go rest (S j) s0 ;; let '(rest', s') := w in Some ((a, d) :: rest', s'))
                  else pa <- openB f s0 a idx unf 0 ;; let '(a', sa) := pa in
                       pd <- openB f sa d idx unf 0 ;; let '(d', sd) := pd in
                       w <- go rest (S j) sd ;; let '(rest', s') := w in Some ((a', d') :: rest', s')
              end) ds 0 s3 ;;
      let '(ds', s4) := z in
      pb <- openB f s4 body idx unf 0 ;; let '(body', s5) := pb in
      let_substB f s5 n (S i) ds' body'
  end end.

Fixpoint whnfB (fuel : nat) (s : storeB) (D : dctx) (t : term) : option (term * storeB) :=
  match fuel with O => None | S f =>
  match t with
  | THole id sh =>
      match sget s id with
      | Some sol => sol' <- ushiftB f s sol 0 sh ;; whnfB f s D sol'
      | None => Some (t, s) end
  | TVar i =>
      match nth_error D i with
      | Some (Some (d, off)) => d' <- ushiftB f s d 0 (i + 1 - off) ;; whnfB f s D d'
      | _ => Some (t, s) end
  | TApp a b =>
      p <- whnfB f s D a ;; let '(a', s1) := p in
      match a' with
      | TLam _ _ body => q <- openB f s1 body 0 b 0 ;; let '(r, s2) := q in whnfB f s2 D r
      | _ => Some (TApp a' b, s1) end
  | TLet ds b => p <- let_substB f s (length ds) 0 ds b ;; let '(b', s1) := p in whnfB f s1 D b'
  | TNeg a =>
      p <- whnfB f s D a ;; let '(a', s1) := p in
      Some (match a' with TLit z => TLit (- z) | _ => TNeg a' end, s1)
  | TBin o a b =>
      p <- whnfB f s D a ;; let '(a', s1) := p in
      q <- whnfB f s1 D b ;; let '(b', s2) := q in
      Some (match a', b' with
            | TLit x, TLit y => match bin_whnf o x y with Some r => r | None => TBin o a' b' end
            | _, _ => TBin o a' b' end, s2)
  | TIf c a b =>
      p <- whnfB f s D c ;; let '(c', s1) := p in
      match c' with TTrue => whnfB f s1 D a | TFalse => whnfB f s1 D b | _ => Some (TIf c' a b, s1) end
  | _ => Some (t, s)
  end end.

Definition binop_eqbB (a b : binop) : bool :=
  match a, b with OSum, OSum | ODiff, ODiff | OProd, OProd | OQuot, OQuot | OLt, OLt | OLe, OLe | OEq, OEq | OGt, OGt | OGe, OGe => true | _, _ => false end.

(* follow solved holes at the head *)
Fixpoint headB (fuel : nat) (s : storeB) (t : term) : option term :=
  match fuel with O => None | S f =>
  match t with
  | THole id sh => match sget s id with Some sol => sol' <- ushiftB f s sol 0 sh ;; headB f s sol' | None => Some t end
  | _ => Some t end end.

Fixpoint syn_eqB (fuel : nat) (s : storeB) (a b : term) : option bool :=
  match fuel with O => None | S f =>
  a' <- headB f s a ;; b' <- headB f s b ;;
  let and2 (x y : option bool) := u <- x ;; if u then y else Some false in
  match a', b' with
  | THole i1 s1, THole i2 s2 => Some (Nat.eqb i1 i2 && Nat.eqb s1 s2)
  | TType, TType | TInt, TInt | TBool, TBool | TTrue, TTrue | TFalse, TFalse => Some true
  | TVar i, TVar j => Some (Nat.eqb i j)
  | TLam i1 _ b1, TLam i2 _ b2 => if Bool.eqb i1 i2 then syn_eqB f s b1 b2 else Some false
  | TPi i1 d1 b1, TPi i2 d2 b2 => if Bool.eqb i1 i2 then and2 (syn_eqB f s d1 d2) (syn_eqB f s b1 b2) else Some false
  | TApp a1 b1, TApp a2 b2 => and2 (syn_eqB f s a1 a2) (syn_eqB f s b1 b2)
  | TLet ds1 b1, TLet ds2 b2 =>
      if Nat.eqb (length ds1) (length ds2) then
        and2 ((fix go (l1 l2 : list (term * term)) : option bool :=
                 match l1, l2 with
                 | (_, d1) :: r1, (_, d2) :: r2 => and2 (syn_eqB f s d1 d2) (go r1 r2)
                 | _, _ => Some true end) ds1 ds2)
             (syn_eqB f s b1 b2)
      else Some false
  | TLit x, TLit y => Some (Z.eqb x y)
  | TNeg x, TNeg y => syn_eqB f s x y
  | TBin o1 a1 b1, TBin o2 a2 b2 => if binop_eqbB o1 o2 then and2 (syn_eqB f s a1 a2) (syn_eqB f s b1 b2) else Some false
  | TIf c1 a1 b1, TIf c2 a2 b2 => and2 (syn_eqB f s c1 c2) (and2 (syn_eqB f s a1 a2) (syn_eqB f s b1 b2))
  | _, _ => Some false
  end end.

(* does the unsolved cell `id` occur (through solved cells) in t ?  -- the occurs check *)
Fixpoint occursB (fuel : nat) (s : storeB) (id : nat) (t : term) : option bool :=
  match fuel with O => None | S f =>
  let or2 (x y : option bool) := u <- x ;; if u then Some true else y in
  match t with
  | THole j _ => match sget s j with Some sol => occursB f s id sol | None => Some (Nat.eqb j id) end
  | TLam _ a b | TPi _ a b | TApp a b | TBin _ a b => or2 (occursB f s id a) (occursB f s id b)
  | TLet ds b => or2 ((fix go (l : list (term * term)) : option bool :=
                         match l with [] => Some false | (a, d) :: r => or2 (occursB f s id a) (or2 (occursB f s id d) (go r)) end) ds)
                     (occursB f s id b)
  | TNeg a => occursB f s id a
  | TIf a b c => or2 (occursB f s id a) (or2 (occursB f s id b) (occursB f s id c))
  | _ => Some false
  end end.

Fixpoint unifyB (fuel : nat) (s : storeB) (D : dctx) (a b : term) : option (bool * storeB) :=
  match fuel with O => None | S f =>
  e <- syn_eqB f s a b ;;
  if e then Some (true, s) else
  p <- whnfB f s D a ;; let '(w1, s1) := p in
  q <- whnfB f s1 D b ;; let '(w2, s2) := q in
  let solve (id sh : nat) (other : term) (k : unit -> option (bool * storeB)) : option (bool * storeB) :=
      low <- sshiftB f s2 other 0 (- Z.of_nat sh) ;;
      match low with
      | None => k tt
      | Some sol => oc <- occursB f s2 id other ;; if oc then Some (false, s2) else Some (true, sset s2 id sol)
      end in
  let and2 (x : option (bool * storeB)) (y : storeB -> option (bool * storeB)) :=
      r <- x ;; let '(u, s') := r in if u then y s' else Some (false, s') in
  let structural (_ : unit) : option (bool * storeB) :=
    match w1, w2 with
    | TType, TType | TInt, TInt | TBool, TBool | TTrue, TTrue | TFalse, TFalse => Some (true, s2)
    | TVar i, TVar j => Some (Nat.eqb i j, s2)
    | TLam i1 _ b1, TLam i2 _ b2 => if Bool.eqb i1 i2 then unifyB f s2 (None :: D) b1 b2 else Some (false, s2)
    | TPi i1 d1 b1, TPi i2 d2 b2 =>
        if Bool.eqb i1 i2 then and2 (unifyB f s2 D d1 d2) (fun s' => unifyB f s' (None :: D) b1 b2) else Some (false, s2)
    | TApp a1 b1, TApp a2 b2 => and2 (unifyB f s2 D a1 a2) (fun s' => unifyB f s' D b1 b2)
    | TLit x, TLit y => Some (Z.eqb x y, s2)
    | TNeg x, TNeg y => unifyB f s2 D x y
    | TBin o1 a1 b1, TBin o2 a2 b2 =>
        if binop_eqbB o1 o2 then and2 (unifyB f s2 D a1 a2) (fun s' => unifyB f s' D b1 b2) else Some (false, s2)
    | TIf c1 a1 b1, TIf c2 a2 b2 =>
        and2 (unifyB f s2 D c1 c2) (fun s' => and2 (unifyB f s' D a1 a2) (fun s'' => unifyB f s'' D b1 b2))
    | _, _ => Some (false, s2)
    end in
  match w1, w2 with
  | THole i1 h1, THole i2 h2 =>
      if Nat.eqb i1 i2 && Nat.eqb h1 h2 then Some (true, s2)
      else solve i1 h1 w2 (fun _ => solve i2 h2 w1 (fun _ => Some (false, s2)))
  | THole i1 h1, _ => solve i1 h1 w2 (fun _ => Some (false, s2))
  | _, THole i2 h2 => solve i2 h2 w1 (fun _ => Some (false, s2))
  | _, _ => structural tt
  end end.

(* ---- type_check_rec.  Errors are recorded as small tags; contexts are passed down (the framework
   model threads them as state to state "restored" as a theorem). ---- *)
Inductive errB := ENotType | ENotFunction | EArgument | EAnnotation | ENotInt | ENotBool | EBranches | EScope.

Record tcres := { b_elab : term; b_ty : term; b_st : storeB; b_errs : list errB }.

Definition fresh_hole (s : storeB) : term * storeB := let '(id, s') := salloc s in (THole id 0, s').

Definition expectB (f : nat) (s0 : storeB) (D0 : dctx) (actual wanted : term) (e : errB) (es : list errB)
  : option (storeB * list errB) :=
  r <- unifyB f s0 D0 actual wanted ;; let '(ok, s1) := r in Some (s1, if ok then es else es ++ [e]).

(* the loop over the definitions of a group, parameterised by the recursive checker *)
Fixpoint tc_defs (f : nat) (tc : storeB -> term -> option tcres) (D' : dctx)
                 (l : list (term * term)) (s0 : storeB) (es : list errB)
  : option (list (term * term) * storeB * list errB) :=
  match l with
  | [] => Some ([], s0, es)
  | (a, d) :: rest =>
      ra <- tc s0 a ;;
      w <- expectB f (b_st ra) D' (b_ty ra) TType ENotType (es ++ b_errs ra) ;; let '(s0a, es0) := w in
      rd <- tc s0a d ;;
      x <- expectB f (b_st rd) D' (b_ty rd) a EAnnotation (es0 ++ b_errs rd) ;; let '(s1, es1) := x in
      z <- tc_defs f tc D' rest s1 es1 ;; let '(rest', s2, es2) := z in
      Some ((a, b_elab rd) :: rest', s2, es2)
  end.

(* the type of a group: open each group variable with the corresponding projection of the group,
   shifted above the group's own variables (cutoff = number of definitions) *)
Fixpoint shift_defs (f : nat) (s0 : storeB) (c m : nat) (l : list (term * term)) : option (list (term * term)) :=
  match l with
  | [] => Some []
  | (a, d) :: rest => a' <- ushiftB f s0 a c m ;; d' <- ushiftB f s0 d c m ;; r' <- shift_defs f s0 c m rest ;; Some ((a', d') :: r')
  end.
Fixpoint group_typeB (f : nat) (n : nat) (ds' : list (term * term)) (i k : nat) (acc : term) (s0 : storeB)
  : option (term * storeB) :=
  match k with
  | O => Some (acc, s0)
  | S k' =>
      sh <- shift_defs f s0 n (n - 1 - i) ds' ;;
      o <- openB f s0 acc 0 (TLet sh (TVar i)) 0 ;; let '(acc', s') := o in
      group_typeB f n ds' (S i) k' acc' s'
  end.

Fixpoint tcB (fuel : nat) (s : storeB) (G : tctx) (D : dctx) (t : term) : option tcres :=
  match fuel with O => None | S f =>
  let expect := expectB f in
  match t with
  | THole _ _ | TType | TInt | TBool => Some {| b_elab := t; b_ty := TType; b_st := s; b_errs := [] |}
  | TLit _ => Some {| b_elab := t; b_ty := TInt; b_st := s; b_errs := [] |}
  | TTrue | TFalse => Some {| b_elab := t; b_ty := TBool; b_st := s; b_errs := [] |}
  | TVar i =>
      match nth_error G i with
      | Some (T, off) => T' <- ushiftB f s T 0 (i + 1 - off) ;; Some {| b_elab := t; b_ty := T'; b_st := s; b_errs := [] |}
      | None => Some {| b_elab := t; b_ty := TType; b_st := s; b_errs := [EScope] |}     (* Panic site in the framework model *)
      end
  | TLam im d b =>
      rd <- tcB f s G D d ;;
      x <- expect (b_st rd) D (b_ty rd) TType ENotType (b_errs rd) ;; let '(s1, es1) := x in
      rb <- tcB f s1 ((b_elab rd, 0) :: G) (None :: D) b ;;
      Some {| b_elab := TLam im (b_elab rd) (b_elab rb); b_ty := TPi im (b_elab rd) (b_ty rb); b_st := b_st rb; b_errs := es1 ++ b_errs rb |}
  | TPi im d b =>
      rd <- tcB f s G D d ;;
      x <- expect (b_st rd) D (b_ty rd) TType ENotType (b_errs rd) ;; let '(s1, es1) := x in
      rb <- tcB f s1 ((b_elab rd, 0) :: G) (None :: D) b ;;
      y <- expect (b_st rb) (None :: D) (b_ty rb) TType ENotType (es1 ++ b_errs rb) ;; let '(s2, es2) := y in
      Some {| b_elab := TPi im (b_elab rd) (b_elab rb); b_ty := TType; b_st := s2; b_errs := es2 |}
  | TApp a b =>
      ra <- tcB f s G D a ;;
      let '(dom, s1) := fresh_hole (b_st ra) in
      let '(cod, s2) := fresh_hole s1 in
      x <- expect s2 D (TPi false dom cod) (b_ty ra) ENotFunction (b_errs ra) ;; let '(s3, es3) := x in
      rb <- tcB f s3 G D b ;;
      y <- expect (b_st rb) D dom (b_ty rb) EArgument (es3 ++ b_errs rb) ;; let '(s4, es4) := y in
      o <- openB f s4 cod 0 (b_elab rb) 0 ;; let '(T, s5) := o in
      Some {| b_elab := TApp (b_elab ra) (b_elab rb); b_ty := T; b_st := s5; b_errs := es4 |}
  | TLet ds b =>
      let n := length ds in
      let G' := (fix push (l : list (term * term)) (i : nat) (acc : tctx) : tctx :=
                   match l with [] => acc | (a, _) :: r => push r (S i) ((a, n - i) :: acc) end) ds 0 G in
      let D' := (fix push (l : list (term * term)) (i : nat) (acc : dctx) : dctx :=
                   match l with [] => acc | (_, d) :: r => push r (S i) (Some (d, n - i) :: acc) end) ds 0 D in
      r <- tc_defs f (fun s0 d => tcB f s0 G' D' d) D' ds s [] ;;
      let '(ds', s1, es1) := r in
      rb <- tcB f s1 G' D' b ;;
      T <- group_typeB f n ds' 0 n (b_ty rb) (b_st rb) ;;
      let '(T', s3) := T in
      Some {| b_elab := TLet ds' (b_elab rb); b_ty := T'; b_st := s3; b_errs := es1 ++ b_errs rb |}
  | TNeg a =>
      ra <- tcB f s G D a ;;
      x <- expect (b_st ra) D (b_ty ra) TInt ENotInt (b_errs ra) ;; let '(s1, es1) := x in
      Some {| b_elab := TNeg (b_elab ra); b_ty := TInt; b_st := s1; b_errs := es1 |}
  | TBin o a b =>
      ra <- tcB f s G D a ;;
      x <- expect (b_st ra) D (b_ty ra) TInt ENotInt (b_errs ra) ;; let '(s1, es1) := x in
      rb <- tcB f s1 G D b ;;
      y <- expect (b_st rb) D (b_ty rb) TInt ENotInt (es1 ++ b_errs rb) ;; let '(s2, es2) := y in
      Some {| b_elab := TBin o (b_elab ra) (b_elab rb);
              b_ty := match o with OSum | ODiff | OProd | OQuot => TInt | _ => TBool end; b_st := s2; b_errs := es2 |}
  | TIf c a b =>
      rc <- tcB f s G D c ;;
      x <- expect (b_st rc) D (b_ty rc) TBool ENotBool (b_errs rc) ;; let '(s1, es1) := x in
      ra <- tcB f s1 G D a ;;
      rb <- tcB f (b_st ra) G D b ;;
      y <- expect (b_st rb) D (b_ty ra) (b_ty rb) EBranches (es1 ++ b_errs ra ++ b_errs rb) ;; let '(s2, es2) := y in
      Some {| b_elab := TIf (b_elab rc) (b_elab ra) (b_elab rb); b_ty := b_ty ra; b_st := s2; b_errs := es2 |}
  end end.

(* zonkB: inline solved holes, for reading results *)
Fixpoint zonkB (fuel : nat) (s : storeB) (t : term) : term :=
  match fuel with O => t | S f =>
  match t with
  | THole id sh => match sget s id with
                   | Some sol => match ushiftB f s sol 0 sh with Some u => zonkB f s u | None => t end
                   | None => t end
  | TLam im a b => TLam im (zonkB f s a) (zonkB f s b)
  | TPi im a b => TPi im (zonkB f s a) (zonkB f s b)
  | TApp a b => TApp (zonkB f s a) (zonkB f s b)
  | TLet ds b => TLet (map (fun p => (zonkB f s (fst p), zonkB f s (snd p))) ds) (zonkB f s b)
  | TNeg a => TNeg (zonkB f s a)
  | TBin o a b => TBin o (zonkB f s a) (zonkB f s b)
  | TIf a b c => TIf (zonkB f s a) (zonkB f s b) (zonkB f s c)
  | _ => t end end.

Definition checkB (t : term) (nholes : nat) : option (term * term * list errB) :=
  r <- tcB 60 (repeat None nholes) [] [] t ;; Some (zonkB 40 (b_st r) (b_elab r), zonkB 40 (b_st r) (b_ty r), b_errs r).

