(* check_definition with the diagnostics themselves: the same walk as ParserPost.check_definition, but
   (a) the order in which the free-variable container is visited is a parameter `enum` (the HashSet's
   iteration followed by whatever the code does to it), and (b) the result is the LIST of diagnostics in
   the order they are pushed, each identified by (index of the definition blamed, index of the
   definition referenced) - the two names the message prints - instead of their count. No proofs here. *)
From Coq Require Import List Arith Bool.
Import ListNotations.
Require Import Gram.Model.Term Gram.Model.DeBruijn Gram.Model.Eval Gram.Model.ParserPost.

Fixpoint check_definition_e (enum : list nat -> list nat) (fuel : nat) (defs : list (term * term)) (start cur : nat)
    (visited : list nat) (errs : list (nat * nat)) : list nat * list (nat * nat) :=
  match fuel with
  | O => (visited, errs)
  | S f =>
    let n := length defs in
    match nth_error defs cur with
    | None => (visited, errs)
    | Some (_, d) =>
        fold_left (fun (st : list nat * list (nat * nat)) (v : nat) =>
                     let '(visited, errs) := st in
                     if Nat.ltb v n then
                       let di := n - 1 - v in
                       if existsb (Nat.eqb di) visited then (visited, errs)
                       else
                         let visited := di :: visited in
                         match nth_error defs di with
                         | Some (_, dd) =>
                             if is_value dd then check_definition_e enum f defs start di visited errs
                             else if Nat.leb start di then (visited, errs ++ [(start, di)]) else (visited, errs)
                         | None => (visited, errs)
                         end
                     else (visited, errs))
                  (enum (fvl d 0)) (visited, errs)
    end
  end.

(* the diagnostics of one group, in the order check_definitions pushes them (nested groups aside) *)
Fixpoint goe_go (enum : list nat -> list nat) (ds l : list (term * term)) (i : nat) : list (nat * nat) :=
  match l with
  | [] => []
  | (_, d) :: r =>
      (if is_value d then [] else snd (check_definition_e enum (S (length ds)) ds i i [] [])) ++ goe_go enum ds r (S i)
  end.
Definition group_order_errors (enum : list nat -> list nat) (ds : list (term * term)) : list (nat * nat) :=
  goe_go enum ds ds 0.
