(* Mirror of src/de_bruijn.rs (signed_shift, unsigned_shift, open) and src/term.rs free_variables. No proofs here. *)
From Coq Require Import List ZArith Lia Bool Arith.
Import ListNotations.
Require Import Gram.Model.Term.

(* index arithmetic of signed_shift's Variable arm *)
Definition shift_idx (i cutoff : nat) (amount : Z) : option nat :=
  if Nat.leb cutoff i then
    let n := (Z.of_nat i + amount)%Z in
    if (Z.of_nat cutoff <=? n)%Z then Some (Z.to_nat n) else None
  else Some i.

Fixpoint sshift (t : term) (cutoff : nat) (amount : Z) : option term :=
  match t with
  | THole id s => s' <- shift_idx s cutoff amount ;; Some (THole id s')
  | TType | TInt | TBool | TTrue | TFalse | TLit _ => Some t
  | TVar i => i' <- shift_idx i cutoff amount ;; Some (TVar i')
  | TLam im d b => d' <- sshift d cutoff amount ;; b' <- sshift b (S cutoff) amount ;; Some (TLam im d' b')
  | TPi im d b => d' <- sshift d cutoff amount ;; b' <- sshift b (S cutoff) amount ;; Some (TPi im d' b')
  | TApp f a => f' <- sshift f cutoff amount ;; a' <- sshift a cutoff amount ;; Some (TApp f' a')
  | TLet ds b =>
      let c := length ds + cutoff in
      ds' <- omap (fun p => let '(a, d) := p in a' <- sshift a c amount ;; d' <- sshift d c amount ;; Some (a', d')) ds ;;
      b' <- sshift b c amount ;; Some (TLet ds' b')
  | TNeg a => a' <- sshift a cutoff amount ;; Some (TNeg a')
  | TBin o a b => a' <- sshift a cutoff amount ;; b' <- sshift b cutoff amount ;; Some (TBin o a' b')
  | TIf c t e => c' <- sshift c cutoff amount ;; t' <- sshift t cutoff amount ;; e' <- sshift e cutoff amount ;; Some (TIf c' t' e')
  end.

Definition up_idx (i c n : nat) := if Nat.leb c i then i + n else i.

Fixpoint ushift (t : term) (c n : nat) : term :=
  match t with
  | THole id s => THole id (up_idx s c n)
  | TType | TInt | TBool | TTrue | TFalse | TLit _ => t
  | TVar i => TVar (up_idx i c n)
  | TLam im d b => TLam im (ushift d c n) (ushift b (S c) n)
  | TPi im d b => TPi im (ushift d c n) (ushift b (S c) n)
  | TApp f a => TApp (ushift f c n) (ushift a c n)
  | TLet ds b => let c' := length ds + c in
      TLet (map (fun p => let '(a, d) := p in (ushift a c' n, ushift d c' n)) ds) (ushift b c' n)
  | TNeg a => TNeg (ushift a c n)
  | TBin o a b => TBin o (ushift a c n) (ushift b c n)
  | TIf c0 t e => TIf (ushift c0 c n) (ushift t c n) (ushift e c n)
  end.

Definition open_idx (j i : nat) : nat := if Nat.ltb i j then j - 1 else j.

Fixpoint open (t : term) (i : nat) (s : term) (k : nat) : term :=
  match t with
  | THole id sh => THole id (open_idx sh i)          (* Model A: identity kept; Model B allocates *)
  | TType | TInt | TBool | TTrue | TFalse | TLit _ => t
  | TVar j => if Nat.eqb j i then ushift s 0 k else TVar (open_idx j i)
  | TLam im d b => TLam im (open d i s k) (open b (S i) s (S k))
  | TPi im d b => TPi im (open d i s k) (open b (S i) s (S k))
  | TApp f a => TApp (open f i s k) (open a i s k)
  | TLet ds b => let n := length ds in
      TLet (map (fun p => let '(a, d) := p in (open a (n + i) s (n + k), open d (n + i) s (n + k))) ds)
           (open b (n + i) s (n + k))
  | TNeg a => TNeg (open a i s k)
  | TBin o a b => TBin o (open a i s k) (open b i s k)
  | TIf c t e => TIf (open c i s k) (open t i s k) (open e i s k)
  end.

(* free variables relative to a cutoff, as a membership predicate computed by a boolean *)
Fixpoint occurs (t : term) (c v : nat) : bool :=   (* variable (v + c) occurs free, i.e. v in free_variables(t, c) *)
  match t with
  | THole _ _ | TType | TInt | TBool | TTrue | TFalse | TLit _ => false
  | TVar i => Nat.eqb i (v + c)
  | TLam _ d b | TPi _ d b => occurs d c v || occurs b (S c) v
  | TApp f a => occurs f c v || occurs a c v
  | TLet ds b => let c' := length ds + c in
      existsb (fun p => let '(a, d) := p in occurs a c' v || occurs d c' v) ds || occurs b c' v
  | TNeg a => occurs a c v
  | TBin _ a b => occurs a c v || occurs b c v
  | TIf c0 t e => occurs c0 c v || occurs t c v || occurs e c v
  end.

Fixpoint hole_free (t : term) : bool :=
  match t with
  | THole _ _ => false
  | TType | TInt | TBool | TTrue | TFalse | TLit _ | TVar _ => true
  | TLam _ d b | TPi _ d b => hole_free d && hole_free b
  | TApp f a => hole_free f && hole_free a
  | TLet ds b => forallb (fun p => let '(a, d) := p in hole_free a && hole_free d) ds && hole_free b
  | TNeg a => hole_free a
  | TBin _ a b => hole_free a && hole_free b
  | TIf c t e => hole_free c && hole_free t && hole_free e
  end.


(* free_variables(t, c) as a list (the HashSet's elements; order and multiplicity are not observable) *)
Fixpoint fvl (t : term) (c : nat) : list nat :=
  match t with
  | THole _ _ | TType | TInt | TBool | TTrue | TFalse | TLit _ => []
  | TVar i => if Nat.leb c i then [i - c] else []
  | TLam _ d b | TPi _ d b => fvl d c ++ fvl b (S c)
  | TApp f a => fvl f c ++ fvl a c
  | TLet ds b => let c' := length ds + c in
      flat_map (fun p => let '(a, d) := p in fvl a c' ++ fvl d c') ds ++ fvl b c'
  | TNeg a => fvl a c
  | TBin _ a b => fvl a c ++ fvl b c
  | TIf c0 t e => fvl c0 c ++ fvl t c ++ fvl e c
  end.
