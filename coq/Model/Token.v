(* Token kinds of src/token.rs (28 variants; Terminator split by its type) and tokens with payloads. *)
From Coq Require Import List ZArith NArith Bool.
Import ListNotations.

Inductive tkind :=
| KAsterisk | KBoolean | KColon | KDoubleEquals | KElse | KEquals | KFalse | KGreaterThan
| KGreaterThanOrEqualTo | KIdentifier | KIf | KInteger | KIntegerLiteral | KLeftCurly | KLeftParen
| KLessThan | KLessThanOrEqualTo | KMinus | KPlus | KRightCurly | KRightParen | KSlash
| KLineBreak | KSemicolon | KThen | KThickArrow | KThinArrow | KTrue | KType.

Definition tkind_eq_dec : forall a b : tkind, {a = b} + {a <> b}.
Proof. decide equality. Defined.
Definition tkind_eqb (a b : tkind) : bool := if tkind_eq_dec a b then true else false.

Lemma tkind_eqb_eq a b : tkind_eqb a b = true <-> a = b.
Proof. unfold tkind_eqb. destruct (tkind_eq_dec a b); split; congruence. Qed.

Definition all_kinds : list tkind :=
  [KAsterisk; KBoolean; KColon; KDoubleEquals; KElse; KEquals; KFalse; KGreaterThan;
   KGreaterThanOrEqualTo; KIdentifier; KIf; KInteger; KIntegerLiteral; KLeftCurly; KLeftParen;
   KLessThan; KLessThanOrEqualTo; KMinus; KPlus; KRightCurly; KRightParen; KSlash;
   KLineBreak; KSemicolon; KThen; KThickArrow; KThinArrow; KTrue; KType].

(* a token value: a kind, with the identifier's code points or the literal's value as payload *)
Inductive tokv := TK (k : tkind) | TIdent (text : list N) | TNum (z : Z).
Definition kind_of (v : tokv) : tkind :=
  match v with TK k => k | TIdent _ => KIdentifier | TNum _ => KIntegerLiteral end.

Record tok := { tstart : nat; tend : nat; tv : tokv }.

Definition kind_lookup (tbl : list (tkind * bool)) (k : tkind) : bool :=
  match find (fun p => tkind_eqb (fst p) k) tbl with Some (_, b) => b | None => false end.
