(* Mirror of src/tokenizer.rs as a one-character-at-a-time state machine. The Rust loop's
   peek/next look-ahead becomes "flush the token in progress, then dispatch the character".
   Symbol, look-ahead, keyword and line-break tables are GENERATED from the source
   (Gen/TokenTables.v). No proofs here. *)
From Coq Require Import List ZArith NArith Lia Bool Arith.
Import ListNotations.
Require Import Gram.Model.Token Gram.Gen.TokenTables.

(* a character: code point, UTF-8 width, and the three classes Rust's std computes *)
Record ch := { cp : N; width : nat; alpha : bool; alnum : bool; ws : bool }.

Definition c_nl := 10%N. Definition c_hash := 35%N. Definition c_us := 95%N.
Definition is_digit (c : N) := (48 <=? c)%N && (c <=? 57)%N.

Definition assoc {B} (tbl : list (N * B)) (c : N) : option B :=
  match find (fun p => N.eqb (fst p) c) tbl with Some (_, v) => Some v | None => None end.

Definition single_symbol (c : N) : option tkind := assoc symbol_table c.
Definition pend_of (c : N) : option (list (N * tkind) * tkind) := assoc pair_table c.

Fixpoint list_N_eqb (a b : list N) : bool :=
  match a, b with [], [] => true | x :: a', y :: b' => N.eqb x y && list_N_eqb a' b' | _, _ => false end.
Definition classify_word (w : list N) : tokv :=
  match find (fun p => list_N_eqb (fst p) w) keyword_table with Some (_, k) => TK k | None => TIdent w end.

Definition ends_expr (v : tokv) : bool := kind_lookup ends_table (kind_of v).
Definition starts_expr (v : tokv) : bool := kind_lookup starts_table (kind_of v).

Inductive st :=
| Start
| InWord (start : nat) (rev_text : list N)
| InNum (start : nat) (acc : Z)
| InPend (start : nat) (pairs : list (N * tkind)) (alone : tkind)
| InComment.

Record out := { toks : list tok (* reversed *); errs : list (nat * nat) (* reversed *) }.
Definition emit (o : out) (s e : nat) (v : tokv) :=
  {| toks := {| tstart := s; tend := e; tv := v |} :: toks o; errs := errs o |}.

Section Lex.
Variable gend : nat -> nat.     (* grapheme-cluster oracle (unicode-segmentation): end of the cluster at a byte offset *)

(* what the Rust loop does with character c at offset i when no token is in progress *)
Definition dispatch (o : out) (i : nat) (c : ch) : st * out :=
  match single_symbol (cp c) with
  | Some k => (Start, emit o i (i + 1) (TK k))
  | None =>
    if N.eqb (cp c) c_nl then
      (Start, match toks o with
              | t :: _ => if ends_expr (tv t) then emit o i (i + 1) (TK KLineBreak) else o
              | [] => o end)
    else match pend_of (cp c) with
    | Some (pairs, alone) => (InPend i pairs alone, o)
    | None =>
      if alpha c || N.eqb (cp c) c_us then (InWord i [cp c], o)
      else if is_digit (cp c) then (InNum i (Z.of_N (cp c) - 48), o)
      else if ws c then (Start, o)
      else if N.eqb (cp c) c_hash then (InComment, o)
      else (Start, {| toks := toks o; errs := (i, gend i) :: errs o |})
    end
  end.

Definition flush (s : st) (o : out) (i : nat) : out :=
  match s with
  | Start | InComment => o
  | InWord st0 rt => emit o st0 i (classify_word (rev rt))
  | InNum st0 z => emit o st0 i (TNum z)
  | InPend st0 _ alone => emit o st0 (st0 + 1) (TK alone)
  end.

Fixpoint lex (cs : list ch) (i : nat) (s : st) (o : out) : out :=
  match cs with
  | [] => flush s o i
  | c :: cs' =>
    let i' := i + width c in
    match s with
    | Start => let '(s', o') := dispatch o i c in lex cs' i' s' o'
    | InWord st0 rt =>
        if alnum c || N.eqb (cp c) c_us then lex cs' i' (InWord st0 (cp c :: rt)) o
        else let '(s', o') := dispatch (flush s o i) i c in lex cs' i' s' o'
    | InNum st0 z =>
        if is_digit (cp c) then lex cs' i' (InNum st0 (z * 10 + (Z.of_N (cp c) - 48))) o
        else let '(s', o') := dispatch (flush s o i) i c in lex cs' i' s' o'
    | InPend st0 pairs alone =>
        match assoc pairs (cp c) with
        | Some k => lex cs' i' Start (emit o st0 (st0 + 2) (TK k))
        | None => let '(s', o') := dispatch (flush s o i) i c in lex cs' i' s' o'
        end
    | InComment =>     (* the line break is not part of the comment *)
        if N.eqb (cp c) c_nl then let '(s', o') := dispatch o i c in lex cs' i' s' o'
        else lex cs' i' InComment o
    end
  end.

Inductive res := Ok (ts : list tok) | Err (es : list (nat * nat)) | Panic.

(* second pass: drop line-break terminators at the end and before tokens that cannot start an expression *)
Definition is_lbv (v : tokv) : bool := match v with TK KLineBreak => true | _ => false end.

Fixpoint filter2 (ts : list tok) : option (list tok) :=
  match ts with
  | [] => Some []
  | t :: rest =>
    if is_lbv (tv t) then
        match rest with
        | [] => Some []
        | n :: _ =>
            if is_lbv (tv n) then None     (* the panic! site *)
            else match filter2 rest with
                 | Some r => Some (if starts_expr (tv n) then t :: r else r) | None => None end
        end
    else match filter2 rest with Some r => Some (t :: r) | None => None end
  end.

Definition tokenize (cs : list ch) : res :=
  let o := lex cs 0 Start {| toks := []; errs := [] |} in
  match errs o with
  | _ :: _ => Err (rev (errs o))
  | [] => match filter2 (rev (toks o)) with Some ts => Ok ts | None => Panic end
  end.
End Lex.

(* ASCII characters: their classes are defined here (and compared exhaustively with Rust's) *)
Definition asc (n : N) : ch :=
  let is_al := ((65 <=? n) && (n <=? 90) || (97 <=? n) && (n <=? 122))%N in
  {| cp := n; width := 1; alpha := is_al; alnum := is_al || is_digit n;
     ws := ((9 <=? n) && (n <=? 13) || (n =? 32))%N |}.
