(* Mirror of `Display for Variant` and `group` / `binder_domain` (src/term.rs) as a printer to token
   kinds. Identifiers print as KIdentifier (names are copied verbatim by the implementation and do
   not influence structure); literals print as KIntegerLiteral, a negative literal as `-` followed by
   its magnitude. Which formers `group` leaves bare comes from the GENERATED Gen/ValueForms.v. *)
From Coq Require Import List ZArith Bool Arith.
Import ListNotations.
Require Import Gram.Model.Term Gram.Model.DeBruijn Gram.Model.Token Gram.Gen.ValueForms.

Definition binop_kind (o : binop) : tkind :=
  match o with
  | OSum => KPlus | ODiff => KMinus | OProd => KAsterisk | OQuot => KSlash | OLt => KLessThan
  | OLe => KLessThanOrEqualTo | OEq => KDoubleEquals | OGt => KGreaterThan | OGe => KGreaterThanOrEqualTo
  end.

Definition lit_tokens (z : Z) : list tkind := if (z <? 0)%Z then [KMinus; KIntegerLiteral] else [KIntegerLiteral].
Definition paren (l : list tkind) : list tkind := [KLeftParen] ++ l ++ [KRightParen].

Fixpoint print (t : term) : list tkind :=
  let group (u : term) : list tkind :=
    if in_formers group_bare u || former_eqb (former_of u) FHole then print u else paren (print u) in
  let binder_domain (u : term) : list tkind :=
    match u with TLet _ _ => paren (print u) | _ => print u end in
  match t with
  | THole _ _ => [KIdentifier]
  | TType => [KType] | TInt => [KInteger] | TBool => [KBoolean] | TTrue => [KTrue] | TFalse => [KFalse]
  | TLit z => lit_tokens z
  | TVar _ => [KIdentifier]
  | TLam im d b =>
      (if im then [KLeftCurly] else [KLeftParen]) ++ [KIdentifier; KColon] ++ binder_domain d ++
      (if im then [KRightCurly] else [KRightParen]) ++ [KThickArrow] ++ print b
  | TPi im d c =>
      if occurs c 0 0 then
        (if im then [KLeftCurly] else [KLeftParen]) ++ [KIdentifier; KColon] ++ binder_domain d ++
        (if im then [KRightCurly] else [KRightParen]) ++ [KThinArrow] ++ print c
      else if im then [KLeftCurly] ++ print d ++ [KRightCurly; KThinArrow] ++ print c
      else (match d with TApp _ _ => print d | _ => group d end) ++ [KThinArrow] ++ print c
  | TApp f a => (match f with TApp _ _ => print f | _ => group f end) ++ group a
  | TLet ds b =>
      flat_map (fun p => let '(an, d) := p in [KIdentifier; KColon] ++ group an ++ [KEquals] ++ group d ++ [KSemicolon]) ds ++ print b
  | TNeg a => [KMinus] ++ group a
  | TBin o a b => group a ++ [binop_kind o] ++ group b
  | TIf c a b => [KIf] ++ print c ++ [KThen] ++ print a ++ [KElse] ++ print b
  end.

(* the implicit function type with an unused variable prints without its binder (recorded finding D12) *)
Fixpoint has_unused_implicit_pi (t : term) : bool :=
  match t with
  | THole _ _ | TType | TInt | TBool | TTrue | TFalse | TLit _ | TVar _ => false
  | TLam _ d b => has_unused_implicit_pi d || has_unused_implicit_pi b
  | TPi im d c => (im && negb (occurs c 0 0)) || has_unused_implicit_pi d || has_unused_implicit_pi c
  | TApp f a => has_unused_implicit_pi f || has_unused_implicit_pi a
  | TLet ds b => existsb (fun p => let '(an, d) := p in has_unused_implicit_pi an || has_unused_implicit_pi d) ds || has_unused_implicit_pi b
  | TNeg a => has_unused_implicit_pi a
  | TBin _ a b => has_unused_implicit_pi a || has_unused_implicit_pi b
  | TIf c a b => has_unused_implicit_pi c || has_unused_implicit_pi a || has_unused_implicit_pi b
  end.
