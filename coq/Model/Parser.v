(* Mirror of the packrat parser of src/parser.rs: an interpreter of the GENERATED skeleton
   (Gen/ParserSkeleton.v: for every parse_* function its alternatives or its step list, and whether it
   is memoised) plus the three irregular functions parse_let / parse_if / parse_group with their
   error recovery, the per-production tree builders with source ranges, and the memo table.
   No proofs here. *)
From Coq Require Import List ZArith NArith Lia Bool Arith PArith FMapPositive.
Import ListNotations.
Require Import Gram.Model.Term Gram.Model.Token Gram.Model.Grammar Gram.Gen.ParserSkeleton.

Definition name := list N.
Record ptok := { pk : tkind; ps : N; pe : N; pname : name; pz : Z }.
(* byte offsets and token positions are binary numbers (N) so that long inputs stay cheap to run *)

Record pinfo := { prs : N; pre : N; pgroup : bool; pnerr : nat }.

(* the parser's own tree type (parser.rs `Term`): names instead of indices, optional annotations,
   a group flag, a count of attached error factories, and a ParseError variant *)
Inductive pterm :=
| PError (i : pinfo)
| PType (i : pinfo) | PInt (i : pinfo) | PBool (i : pinfo) | PTrue (i : pinfo) | PFalse (i : pinfo)
| PVar (i : pinfo) (x : name)
| PLit (i : pinfo) (z : Z)
| PLam (i : pinfo) (x : name) (xs xe : N) (impl : bool) (dom : option pterm) (body : pterm)
| PPi (i : pinfo) (x : name) (xs xe : N) (impl : bool) (dom : pterm) (cod : pterm)
| PApp (i : pinfo) (f a : pterm)
| PLet (i : pinfo) (x : name) (xs xe : N) (ann : option pterm) (d b : pterm)
| PNeg (i : pinfo) (a : pterm)
| PBin (i : pinfo) (o : binop) (a b : pterm)
| PIf (i : pinfo) (c t e : pterm).

Definition info (t : pterm) : pinfo :=
  match t with
  | PError i | PType i | PInt i | PBool i | PTrue i | PFalse i | PVar i _ | PLit i _
  | PLam i _ _ _ _ _ _ | PPi i _ _ _ _ _ _ | PApp i _ _ | PLet i _ _ _ _ _ _ | PNeg i _ | PBin i _ _ _ | PIf i _ _ _ => i
  end.
Definition is_perror (t : pterm) : bool := match t with PError _ => true | _ => false end.
Definition mk (s e : N) (g : bool) (n : nat) : pinfo := {| prs := s; pre := e; pgroup := g; pnerr := n |}.
Definition with_info (t : pterm) (i : pinfo) : pterm :=
  match t with
  | PError _ => PError i | PType _ => PType i | PInt _ => PInt i | PBool _ => PBool i | PTrue _ => PTrue i
  | PFalse _ => PFalse i | PVar _ x => PVar i x | PLit _ z => PLit i z
  | PLam _ x a b im d bd => PLam i x a b im d bd | PPi _ x a b im d c => PPi i x a b im d c
  | PApp _ f a => PApp i f a | PLet _ x a b an d bd => PLet i x a b an d bd | PNeg _ a => PNeg i a
  | PBin _ o a b => PBin i o a b | PIf _ c t e => PIf i c t e
  end.

(* (term, next, confident), or out of fuel *)
Inductive pres := PFuel | PRes (t : pterm) (next : N) (conf : bool).

Definition key (n : nt) (pos : N) : positive := N.succ_pos (N.of_nat (nt_index n) + 36 * pos).

Record mstate := { tbl : PositiveMap.t pres; misses : nat; scans : nat }.
Definition M (A : Type) := mstate -> A * mstate.
Definition ret {A} (a : A) : M A := fun s => (a, s).

Section Parser.
Variable use_memo : bool.

Variable tokmap : PositiveMap.t ptok.     (* the token array, built once from `toks` (see tokmap_of below) *)
Variable ntoks : nat.                     (* length toks *)
Variable last_tok : option ptok.          (* last_opt toks *)
Definition ntoksN : N := N.of_nat ntoks.
Definition at_ (p : N) : option ptok := PositiveMap.find (N.succ_pos p) tokmap.
Definition same_kind (want have : tkind) : bool := tkind_eqb want have.
Definition is (p : N) (k : tkind) : bool := match at_ p with Some t => same_kind k (pk t) | None => false end.
Definition is_terminator (p : N) : bool := is p KLineBreak || is p KSemicolon.

(* token_source_range / empty_source_range *)
Definition tok_range (p : N) : N * N :=
  match at_ p with
  | Some t => (ps t, pe t)
  | None => match last_tok with Some t => (pe t, pe t) | None => (0%N, 0%N) end
  end.
Definition empty_range (p : N) : N * N := let '(s, _) := tok_range p in (s, s).
Definition error_term (p : N) : pterm := let '(s, e) := empty_range p in PError (mk s e false 1).
Definition silent_error (p : N) : pterm := let '(s, e) := empty_range p in PError (mk s e false 0).

(* expect_token_*!: forward scan for a token at parenthesis depth 0; stops at a terminator or at the
   closing parenthesis of the current group. `want` recognises the token. *)
Fixpoint scan (fuel : nat) (want : tkind -> bool) (p : N) (depth : nat) (steps : nat) : bool * N * nat :=
  match fuel with
  | O => (false, p, steps)
  | S f =>
    match at_ p with
    | None => (false, p, steps)
    | Some t =>
        if want (pk t) && Nat.eqb depth 0 then (true, N.succ p, steps)
        else match pk t with
             | KLeftParen => scan f want (N.succ p) (S depth) (S steps)
             | KRightParen => if Nat.eqb depth 0 then (false, p, steps) else scan f want (N.succ p) (depth - 1) (S steps)
             | KLineBreak | KSemicolon => if Nat.eqb depth 0 then (false, p, steps) else scan f want (N.succ p) depth (S steps)
             | _ => scan f want (N.succ p) depth (S steps)
             end
    end
  end.
(* returns (found, next, number of errors reported) and counts scan steps *)
Definition expect (want : tkind -> bool) (p : N) (report : bool) : M (bool * N * nat) :=
  fun s =>
    let here := match at_ p with Some t => want (pk t) | None => false end in
    let nerr := if report && negb here then 1 else 0 in
    let '(found, nx, st) := scan (S ntoks) want p 0 0 in
    ((found, nx, nerr), {| tbl := tbl s; misses := misses s; scans := scans s + st |}).

Definition mrec := nt -> N -> M pres.

(* ordered choice: try_return! on each alternative; the result of the first success is returned as is *)
Fixpoint choose (rec : mrec) (pos : N) (alts : list nt) : M pres :=
  fun s => match alts with
  | [] => (PRes (error_term pos) pos false, s)
  | a :: r => match rec a pos s with
              | (PFuel, s') => (PFuel, s')
              | (PRes t nx c, s') => if is_perror t then choose rec pos r s' else (PRes t nx c, s')
              end
  end.

(* what a sequence function has collected so far *)
Inductive child := CTok (p : N) | CTerm (t : pterm).

Definition span_of (a b : N * N) : N * N := (fst a, snd b).
Definition crange (c : child) : N * N := match c with CTok p => tok_range p | CTerm t => (prs (info t), pre (info t)) end.
Definition tok_name (p : N) : name := match at_ p with Some t => pname t | None => [] end.
Definition tok_z (p : N) : Z := match at_ p with Some t => pz t | None => 0%Z end.

(* the constructor each regular parse_* function applies to what it collected (hand-written mirror of
   the `Term { source_range: ..., variant: ... }` at the end of each function) *)
Definition build (n : nt) (cs : list child) : option pterm :=
  let rng (a b : child) := span_of (crange a) (crange b) in
  let I (r : N * N) := mk (fst r) (snd r) false 0 in
  match n, cs with
  | Type_, [CTok p] => Some (PType (I (tok_range p)))
  | Variable_, [CTok p] => Some (PVar (I (tok_range p)) (tok_name p))
  | Integer, [CTok p] => Some (PInt (I (tok_range p)))
  | IntegerLiteral, [CTok p] => Some (PLit (I (tok_range p)) (tok_z p))
  | Boolean, [CTok p] => Some (PBool (I (tok_range p)))
  | True_, [CTok p] => Some (PTrue (I (tok_range p)))
  | False_, [CTok p] => Some (PFalse (I (tok_range p)))
  | Lambda, [CTok x; CTok _; CTerm b] =>
      let '(xs, xe) := tok_range x in Some (PLam (I (rng (CTok x) (CTerm b))) (tok_name x) xs xe false None b)
  | LambdaImplicit, [CTok l; CTok x; CTok _; CTok _; CTerm b] =>
      let '(xs, xe) := tok_range x in Some (PLam (I (rng (CTok l) (CTerm b))) (tok_name x) xs xe true None b)
  | AnnotatedLambda, [CTok l; CTok x; CTok _; CTerm d; CTok _; CTok _; CTerm b] =>
      let '(xs, xe) := tok_range x in Some (PLam (I (rng (CTok l) (CTerm b))) (tok_name x) xs xe false (Some d) b)
  | AnnotatedLambdaImplicit, [CTok l; CTok x; CTok _; CTerm d; CTok _; CTok _; CTerm b] =>
      let '(xs, xe) := tok_range x in Some (PLam (I (rng (CTok l) (CTerm b))) (tok_name x) xs xe true (Some d) b)
  | Pi, [CTok l; CTok x; CTok _; CTerm d; CTok _; CTok _; CTerm b] =>
      let '(xs, xe) := tok_range x in Some (PPi (I (rng (CTok l) (CTerm b))) (tok_name x) xs xe false d b)
  | PiImplicit, [CTok l; CTok x; CTok _; CTerm d; CTok _; CTok _; CTerm b] =>
      let '(xs, xe) := tok_range x in Some (PPi (I (rng (CTok l) (CTerm b))) (tok_name x) xs xe true d b)
  | NonDependentPi, [CTerm d; CTok _; CTerm b] =>
      (* the placeholder variable `_`, located at the empty range in front of the domain *)
      Some (PPi (I (rng (CTerm d) (CTerm b))) [95%N] (prs (info d)) (prs (info d)) false d b)
  | Application, [CTerm f; CTerm a] => Some (PApp (I (rng (CTerm f) (CTerm a))) f a)
  | Negation, [CTok m; CTerm a] => Some (PNeg (I (rng (CTok m) (CTerm a))) a)
  | Sum, [CTerm a; CTok _; CTerm b] => Some (PBin (I (rng (CTerm a) (CTerm b))) OSum a b)
  | Difference, [CTerm a; CTok _; CTerm b] => Some (PBin (I (rng (CTerm a) (CTerm b))) ODiff a b)
  | Product, [CTerm a; CTok _; CTerm b] => Some (PBin (I (rng (CTerm a) (CTerm b))) OProd a b)
  | Quotient, [CTerm a; CTok _; CTerm b] => Some (PBin (I (rng (CTerm a) (CTerm b))) OQuot a b)
  | LessThan, [CTerm a; CTok _; CTerm b] => Some (PBin (I (rng (CTerm a) (CTerm b))) OLt a b)
  | LessThanOrEqualTo, [CTerm a; CTok _; CTerm b] => Some (PBin (I (rng (CTerm a) (CTerm b))) OLe a b)
  | EqualTo, [CTerm a; CTok _; CTerm b] => Some (PBin (I (rng (CTerm a) (CTerm b))) OEq a b)
  | GreaterThan, [CTerm a; CTok _; CTerm b] => Some (PBin (I (rng (CTerm a) (CTerm b))) OGt a b)
  | GreaterThanOrEqualTo, [CTerm a; CTok _; CTerm b] => Some (PBin (I (rng (CTerm a) (CTerm b))) OGe a b)
  | _, _ => None
  end.

(* a regular sequence function: consume_token_*!, try_eval!, or a committed sub-parse *)
Fixpoint run (rec : mrec) (n : nt) (steps : list pstep) (pos : N) (acc : list child) (conf : bool) : M pres :=
  fun s => match steps with
  | [] => (match build n (rev acc) with
           | Some t => PRes t pos conf
           | None => PRes (error_term pos) pos false   (* unreachable when the skeleton matches `build` *)
           end, s)
  | SConsume k :: r =>
      if is pos k then run rec n r (N.succ pos) (CTok pos :: acc) true s
      else (PRes (error_term pos) pos false, s)
  | STry m :: r =>
      match rec m pos s with
      | (PFuel, s') => (PFuel, s')
      | (PRes t nx c, s') => if is_perror t then (PRes t nx c, s') else run rec n r nx (CTerm t :: acc) c s'
      end
  | SCommit m :: r =>
      match rec m pos s with
      | (PFuel, s') => (PFuel, s')
      | (PRes t nx c, s') => run rec n r nx (CTerm t :: acc) c s'
      end
  end.

Definition bindP (x : M pres) (k : pterm -> N -> bool -> M pres) : M pres :=
  fun s => match x s with (PFuel, s') => (PFuel, s') | (PRes t nx c, s') => k t nx c s' end.

Definition want_kind (k : tkind) : tkind -> bool := tkind_eqb k.
Definition want_terminator (k : tkind) : bool := tkind_eqb k KLineBreak || tkind_eqb k KSemicolon.

Definition parse_let (rec : mrec) (start : N) : M pres :=
  if negb (is start KIdentifier) then ret (PRes (error_term start) start false) else
  let '(xs, xe) := tok_range start in
  let x := tok_name start in
  let p1 := N.succ start in
  let after_annotation (ann : option pterm) (p2 : N) (ann_conf : bool) : M pres :=
    let continue_ (eq_found : bool) (p3 : N) (e1 : nat) : M pres :=
      bindP (if eq_found then rec Term p3 else ret (PRes (silent_error p3) p3 false)) (fun d p4 dconf =>
        fun s =>
        let '((t_found, p5, e2), s1) := expect want_terminator p4 dconf s in
        bindP (if t_found then rec Term p5 else ret (PRes (silent_error p5) p5 false)) (fun b p6 bconf =>
          ret (PRes (PLet (mk xs (pre (info b)) false (e1 + e2)) x xs xe ann d b) p6 bconf)) s1) in
    match ann with
    | Some _ => fun s => let '((eq_found, p3, e1), s1) := expect (want_kind KEquals) p2 ann_conf s in continue_ eq_found p3 e1 s1
    | None => if is p2 KEquals then continue_ true (N.succ p2) 0 else ret (PRes (error_term p2) p2 false)
    end in
  if is p1 KColon then
    bindP (rec SmallTerm (N.succ p1)) (fun a p2 c =>
      if is_perror a then ret (PRes a p2 c) else after_annotation (Some a) p2 c)
  else after_annotation None p1 true.

Definition parse_if (rec : mrec) (start : N) : M pres :=
  if negb (is start KIf) then ret (PRes (error_term start) start false) else
  let '(is_, _) := tok_range start in
  bindP (rec Term (N.succ start)) (fun c p1 cconf => fun s =>
    let '((found_then, p2, e1), s1) := expect (want_kind KThen) p1 cconf s in
    bindP (if found_then then rec Term p2 else ret (PRes (silent_error p2) p2 false)) (fun t p3 tconf => fun s2 =>
      let '((found_else, p4, e2), s3) := expect (want_kind KElse) p3 tconf s2 in
      bindP (if found_else then rec Term p4 else ret (PRes (silent_error p4) p4 false)) (fun e p5 econf =>
        ret (PRes (PIf (mk is_ (pre (info e)) false (e1 + e2)) c t e) p5 econf)) s3) s1).

Definition parse_group (rec : mrec) (start : N) : M pres :=
  if negb (is start KLeftParen) then ret (PRes (error_term start) start false) else
  bindP (rec Term (N.succ start)) (fun t p1 c =>
    if is_perror t then ret (PRes t p1 c) else fun s =>
    let '((found, p2, phony), s1) := expect (want_kind KRightParen) p1 c s in
    let nerr := pnerr (info t) + (if found then phony else 1) in
    let '(gs, _) := tok_range start in
    let '(_, ge) := tok_range (N.pred p2) in
    (PRes (with_info t (mk gs ge true nerr)) p2 found, s1)).

Definition skel (n : nt) : fdesc :=
  match find (fun p => nt_eqb (fst p) n) skeleton with Some (_, d) => d | None => FSpecial end.
Definition memoised (n : nt) : bool :=
  match find (fun p => nt_eqb (fst p) n) memo_flags with Some (_, b) => b | None => false end.
(* the same tables, indexed once (what the interpreter uses at run time) *)
Definition skel_map : PositiveMap.t fdesc :=
  fold_left (fun m p => PositiveMap.add (Pos.of_succ_nat (nt_index (fst p))) (snd p) m) (rev skeleton) (PositiveMap.empty fdesc).
Definition memo_map : PositiveMap.t bool :=
  fold_left (fun m p => PositiveMap.add (Pos.of_succ_nat (nt_index (fst p))) (snd p) m) (rev memo_flags) (PositiveMap.empty bool).
Definition skel_fast (n : nt) : fdesc :=
  match PositiveMap.find (Pos.of_succ_nat (nt_index n)) skel_map with Some d => d | None => FSpecial end.
Definition memoised_fast (n : nt) : bool :=
  match PositiveMap.find (Pos.of_succ_nat (nt_index n)) memo_map with Some b => b | None => false end.

Fixpoint parse (fuel : nat) (n : nt) (pos : N) : M pres :=
  fun s =>
  match fuel with
  | O => (PFuel, s)
  | S f =>
    let hit := if use_memo && memoised_fast n then PositiveMap.find (key n pos) (tbl s) else None in
    match hit with
    | Some r => (r, s)                                            (* cache_check! hit *)
    | None =>
        let s0 := {| tbl := tbl s; misses := S (misses s); scans := scans s |} in
        let '(r, s') :=
          match skel_fast n with
          | FChoice alts => choose (parse f) pos alts s0
          | FSeq steps => run (parse f) n steps pos [] true s0
          | FSpecial =>
              match n with
              | Let => parse_let (parse f) pos s0
              | If => parse_if (parse f) pos s0
              | Group => parse_group (parse f) pos s0
              | _ => (PRes (error_term pos) pos false, s0)
              end
          end in
        (r, if use_memo && memoised_fast n
            then {| tbl := PositiveMap.add (key n pos) r (tbl s'); misses := misses s'; scans := scans s' |}   (* cache_return! *)
            else s')
    end
  end.

Definition parse_fuel : nat := 40 * (S ntoks) + 40.

(* collect_error_factories: total number of error factories in the tree *)
Fixpoint nerrs (t : pterm) : nat :=
  pnerr (info t) +
  match t with
  | PLam _ _ _ _ _ d b => (match d with Some d => nerrs d | None => 0 end) + nerrs b
  | PPi _ _ _ _ _ d b => nerrs d + nerrs b
  | PApp _ f a => nerrs f + nerrs a
  | PLet _ _ _ _ an d b => (match an with Some a => nerrs a | None => 0 end) + nerrs d + nerrs b
  | PNeg _ a => nerrs a
  | PBin _ _ a b => nerrs a + nerrs b
  | PIf _ c t e => nerrs c + nerrs t + nerrs e
  | _ => 0
  end.
Fixpoint has_error_node (t : pterm) : bool :=
  match t with
  | PError _ => true
  | PLam _ _ _ _ _ d b => (match d with Some d => has_error_node d | None => false end) || has_error_node b
  | PPi _ _ _ _ _ d b => has_error_node d || has_error_node b
  | PApp _ f a => has_error_node f || has_error_node a
  | PLet _ _ _ _ an d b => (match an with Some a => has_error_node a | None => false end) || has_error_node d || has_error_node b
  | PNeg _ a => has_error_node a
  | PBin _ _ a b => has_error_node a || has_error_node b
  | PIf _ c t e => has_error_node c || has_error_node t || has_error_node e
  | _ => false
  end.

Inductive stage1 := S1Fuel | S1Errors (n : nat) | S1Panic | S1Tree (t : pterm).
Definition empty_state : mstate := {| tbl := PositiveMap.empty pres; misses := 0; scans := 0 |}.

(* parse_term + [tag:error_check]; also returns the counters *)
Definition parse_stage1_ : stage1 * nat * nat :=
  let '(r, s) := parse parse_fuel Term 0%N empty_state in
  (match r with
   | PFuel => S1Fuel
   | PRes t nx _ =>
       let e := nerrs t in
       if negb (Nat.eqb e 0) then S1Errors e
       else if negb (N.eqb nx ntoksN) then S1Errors 1
       else if has_error_node t then S1Panic       (* a ParseError would reach reassociate_* *)
       else S1Tree t
   end, misses s, scans s).
End Parser.

Definition tokmap_of (toks : list ptok) : PositiveMap.t ptok :=
  snd (fold_left (fun (st : N * PositiveMap.t ptok) (t : ptok) => (N.succ (fst st), PositiveMap.add (N.succ_pos (fst st)) t (snd st)))
                 toks (0%N, PositiveMap.empty ptok)).
Definition parse_stage1 (toks : list ptok) (use_memo : bool) : stage1 * nat * nat :=
  parse_stage1_ use_memo (tokmap_of toks) (length toks) (last_opt toks).
