(* Mirror of src/evaluator.rs (is_value, step, evaluate) on Model A. No proofs here. *)
From Coq Require Import List ZArith Lia Bool Arith.
Import ListNotations.
Require Import Gram.Model.Term Gram.Model.DeBruijn.
Definition is_value (t : term) : bool :=
  match t with
  | TType | TLam _ _ _ | TPi _ _ _ | TInt | TLit _ | TBool | TTrue | TFalse => true
  | _ => false
  end.

Definition arith (o : binop) (x y : Z) : option term :=
  match o with
  | OSum => Some (TLit (x + y)) | ODiff => Some (TLit (x - y)) | OProd => Some (TLit (x * y))
  | OQuot => if (y =? 0)%Z then None else Some (TLit (Z.quot x y))
  | OLt => Some (if (x <? y)%Z then TTrue else TFalse)
  | OLe => Some (if (x <=? y)%Z then TTrue else TFalse)
  | OEq => Some (if (x =? y)%Z then TTrue else TFalse)
  | OGt => Some (if (x >? y)%Z then TTrue else TFalse)
  | OGe => Some (if (x >=? y)%Z then TTrue else TFalse)
  end.

Definition unfold_first (ann d : term) (index : nat) : term :=
  open d index
    (TLet [(open (ushift ann 0 1) (S index) (TVar 0) 0, open (ushift d 0 1) (S index) (TVar 0) 0)] (TVar 0)) 0.

Fixpoint step (t : term) : option term :=
  match t with
  | THole _ _ | TType | TLam _ _ _ | TPi _ _ _ | TVar _ | TInt | TLit _ | TBool | TTrue | TFalse => None
  | TApp f a =>
      match step f with
      | Some f' => Some (TApp f' a)
      | None => if negb (is_value f) then None else
        match step a with
        | Some a' => Some (TApp f a')
        | None => if negb (is_value a) then None else
          match f with TLam _ _ b => Some (open b 0 a 0) | _ => None end
        end
      end
  | TLet ds b =>
      match ds with
      | [] => Some b
      | (ann, d) :: rest =>
          match step d with
          | Some d' => Some (TLet ((ann, d') :: rest) b)
          | None => if negb (is_value d) then None else
              let index := length rest in
              let u := unfold_first ann d index in
              Some (TLet (map (fun p => let '(a, x) := p in (open a index u 0, open x index u 0)) rest)
                         (open b index u 0))
          end
      end
  | TNeg a =>
      match step a with
      | Some a' => Some (TNeg a')
      | None => match a with TLit z => Some (TLit (- z)) | _ => None end
      end
  | TBin o a b =>
      match step a with
      | Some a' => Some (TBin o a' b)
      | None => if negb (is_value a) then None else
        match step b with
        | Some b' => Some (TBin o a b')
        | None => match a, b with TLit x, TLit y => arith o x y | _, _ => None end
        end
      end
  | TIf c t e =>
      match step c with
      | Some c' => Some (TIf c' t e)
      | None => match c with TTrue => Some t | TFalse => Some e | _ => None end
      end
  end.

Fixpoint evaluate (fuel : nat) (t : term) : option term :=
  match fuel with O => None | S f => match step t with Some t' => evaluate f t' | None => Some t end end.
