(* C15: which lines a diagnostic must show. Declarative: line k (0-based) occupies the bytes
   [start_k, start_k + len_k] of the file, its line break included; it is shown, numbered k+1, iff it
   intersects the reported range [rs, re). *)
From Coq Require Import List ZArith NArith Lia Bool Arith.
Import ListNotations.
Require Import Gram.Model.Token Gram.Model.Tokenizer Gram.Model.Listing.

Definition intersects (rs re : nat) (start len : nat) : bool := Nat.ltb start re && Nat.ltb rs (start + len + 1).

(* the 1-based numbers of the lines that must be shown: a plain filter over all lines *)
Fixpoint spec_linenos_from (lines : list (list ch)) (k start rs re : nat) : list nat :=
  match lines with
  | [] => []
  | l :: r =>
      (if intersects rs re start (bytes l) then [S k] else []) ++ spec_linenos_from r (S k) (start + bytes l + 1) rs re
  end.
Definition spec_linenos (cs : list ch) (rs re : nat) : list nat := spec_linenos_from (split_lines cs []) 0 0 rs re.
