(* Declarative typing for the whole term language (C03, C04, C05): contexts with offsets and optional
   definitions, one-step reduction `red`, definitional equality `conv` (the smallest congruent
   equivalence containing `red` in which a function's parameter annotation is irrelevant), and the
   typing rules `has_type`. Unsolved holes are opaque type constants. *)
From Coq Require Import List ZArith Lia Bool Arith Relations.
Import ListNotations.
Require Import Gram.Model.Term Gram.Model.DeBruijn Gram.Model.Eval.

(* ---------- contexts: head = innermost; (type, offset, optional definition) ---------- *)
Definition entry := (term * nat * option term)%type.
Definition ctx := list entry.
Definition lookup_ty (G : ctx) (i : nat) : option term :=
  match nth_error G i with Some (T, k, _) => Some (ushift T 0 (i + 1 - k)) | None => None end.
Definition lookup_def (G : ctx) (i : nat) : option term :=
  match nth_error G i with Some (_, k, Some d) => Some (ushift d 0 (i + 1 - k)) | _ => None end.
Definition bind (G : ctx) (A : term) : ctx := (A, 0, None) :: G.
(* entering a group of n definitions: definition j gets offset n - j *)
Fixpoint push_group (n : nat) (ds : list (term * term)) (j : nat) (G : ctx) : ctx :=
  match ds with [] => G | (a, d) :: r => push_group n r (S j) ((a, n - j, Some d) :: G) end.
Definition enter (ds : list (term * term)) (G : ctx) : ctx := push_group (length ds) ds 0 G.

(* entering a group with the definitions hidden (the variables of the group are opaque) *)
Fixpoint push_group_o (n : nat) (ds : list (term * term)) (j : nat) (G : ctx) : ctx :=
  match ds with [] => G | (a, d) :: r => push_group_o n r (S j) ((a, n - j, None) :: G) end.
Definition enter_o (ds : list (term * term)) (G : ctx) : ctx := push_group_o (length ds) ds 0 G.

(* ---------- the group operations of normalizer.rs / type_checker.rs, hole-free (Model A) ---------- *)
Definition unfold_def := unfold_first.
Fixpoint open_from (j i idx : nat) (u : term) (ds : list (term * term)) : list (term * term) :=
  match ds with
  | [] => []
  | (a, d) :: r => (if Nat.ltb j i then (a, d) else (open a idx u 0, open d idx u 0)) :: open_from (S j) i idx u r
  end.
Fixpoint let_subst (k n i : nat) (ds : list (term * term)) (body : term) : term :=   (* k = remaining iterations *)
  match k with
  | O => body
  | S k' => match nth_error ds i with
            | None => body
            | Some (ann, def) =>
                let idx := n - 1 - i in
                let u := unfold_def ann def idx in
                let_subst k' n (S i) (open_from 0 i idx u ds) (open body idx u 0)
            end
  end.
Definition let_whnf_body (ds : list (term * term)) (b : term) : term := let_subst (length ds) (length ds) 0 ds b.

(* type of a group (with the repaired cutoff, D4) *)
Fixpoint group_type (n : nat) (ds : list (term * term)) (i k : nat) (acc : term) : term :=
  match k with
  | O => acc
  | S k' =>
      let m := n - 1 - i in
      let sh := map (fun p => (ushift (fst p) n m, ushift (snd p) n m)) ds in
      group_type n ds (S i) k' (open acc 0 (TLet sh (TVar i)) 0)
  end.

Definition bin_ty (o : binop) : term := match o with OSum | ODiff | OProd | OQuot => TInt | _ => TBool end.

(* ---------- reduction and definitional equality ---------- *)
Inductive red (G : ctx) : term -> term -> Prop :=
| r_beta im d b a : red G (TApp (TLam im d b) a) (open b 0 a 0)
| r_delta i d : lookup_def G i = Some d -> red G (TVar i) d
| r_let ds b : red G (TLet ds b) (let_whnf_body ds b)
| r_neg z : red G (TNeg (TLit z)) (TLit (- z))
| r_bin o x y r : arith o x y = Some r -> red G (TBin o (TLit x) (TLit y)) r
| r_if_t a b : red G (TIf TTrue a b) a
| r_if_f a b : red G (TIf TFalse a b) b
| r_app1 f f' a : red G f f' -> red G (TApp f a) (TApp f' a)
| r_neg1 a a' : red G a a' -> red G (TNeg a) (TNeg a')
| r_bin1 o a a' b : red G a a' -> red G (TBin o a b) (TBin o a' b)
| r_bin2 o a b b' : red G b b' -> red G (TBin o a b) (TBin o a b')
| r_if1 c c' a b : red G c c' -> red G (TIf c a b) (TIf c' a b).
(* (the remaining congruences are provided by conv below) *)

Inductive conv (G : ctx) : term -> term -> Prop :=
| c_red a b : red G a b -> conv G a b
| c_refl a : conv G a a
| c_sym a b : conv G a b -> conv G b a
| c_trans a b c : conv G a b -> conv G b c -> conv G a c
| c_lam im d d' b b' : conv (bind G d) b b' -> conv G (TLam im d b) (TLam im d' b')      (* annotation irrelevant *)
| c_pi im d d' b b' : conv G d d' -> conv (bind G d) b b' -> conv G (TPi im d b) (TPi im d' b')
| c_app f f' a a' : conv G f f' -> conv G a a' -> conv G (TApp f a) (TApp f' a')
| c_neg a a' : conv G a a' -> conv G (TNeg a) (TNeg a')
| c_bin o a a' b b' : conv G a a' -> conv G b b' -> conv G (TBin o a b) (TBin o a' b')
| c_if c c' a a' b b' : conv G c c' -> conv G a a' -> conv G b b' -> conv G (TIf c a b) (TIf c' a' b')
| c_let ds ds' b b' :                                      (* annotations of definitions irrelevant, as for c_lam:
                                                               syntactically_equal compares definitions and bodies only *)
    (* two groups are compared with their own variables OPAQUE: with the definitions visible (`enter ds G`) the
       delta rule could be run backwards inside the group and every two terms would be convertible
       (Proofs/ConvCollapse.v keeps that derivation as a regression for the rule as first written) *)
    Forall2 (fun p q => conv (enter_o ds G) (snd p) (snd q)) ds ds' ->
    conv (enter_o ds G) b b' -> conv G (TLet ds b) (TLet ds' b').

(* ---------- typing ---------- *)
Inductive has_type (G : ctx) : term -> term -> Prop :=
| t_hole id s : has_type G (THole id s) TType            (* an unsolved cell is an opaque type constant *)
| t_type : has_type G TType TType
| t_int : has_type G TInt TType
| t_bool : has_type G TBool TType
| t_true : has_type G TTrue TBool
| t_false : has_type G TFalse TBool
| t_lit z : has_type G (TLit z) TInt
| t_var i T : lookup_ty G i = Some T -> has_type G (TVar i) T
| t_lam im d b B : has_type G d TType -> has_type (bind G d) b B -> has_type G (TLam im d b) (TPi im d B)
| t_pi im d b : has_type G d TType -> has_type (bind G d) b TType -> has_type G (TPi im d b) TType
| t_app f a A B : has_type G f (TPi false A B) -> has_type G a A -> has_type G (TApp f a) (open B 0 a 0)
| t_let ds b B :
    Forall (fun p => has_type (enter ds G) (fst p) TType /\ has_type (enter ds G) (snd p) (fst p)) ds ->
    has_type (enter ds G) b B ->
    has_type G (TLet ds b) (group_type (length ds) ds 0 (length ds) B)
| t_neg a : has_type G a TInt -> has_type G (TNeg a) TInt
| t_bin o a b : has_type G a TInt -> has_type G b TInt -> has_type G (TBin o a b) (bin_ty o)
| t_if c a b A : has_type G c TBool -> has_type G a A -> has_type G b A -> has_type G (TIf c a b) A
| t_conv t A B : has_type G t A -> conv G A B -> has_type G t B.

