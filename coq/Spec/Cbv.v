(* Call-by-value specification with evaluation contexts, and the taxonomy of stuck terms (C02, C01). *)
From Coq Require Import List ZArith Lia Bool Arith.
Import ListNotations.
Require Import Gram.Model.Term Gram.Model.DeBruijn Gram.Model.Eval.
Definition group_unfold (ann d : term) (rest : list (term * term)) (b : term) : term :=
  let index := length rest in
  let u := unfold_first ann d index in
  TLet (map (fun p => let '(a, x) := p in (open a index u 0, open x index u 0)) rest) (open b index u 0).

Inductive redex : term -> term -> Prop :=
| R_beta im d b a : is_value a = true -> redex (TApp (TLam im d b) a) (open b 0 a 0)
| R_let_nil b : redex (TLet [] b) b
| R_let_val ann d rest b : is_value d = true -> redex (TLet ((ann, d) :: rest) b) (group_unfold ann d rest b)
| R_neg z : redex (TNeg (TLit z)) (TLit (- z))
| R_bin o x y r : arith o x y = Some r -> redex (TBin o (TLit x) (TLit y)) r
| R_if_true t e : redex (TIf TTrue t e) t
| R_if_false t e : redex (TIf TFalse t e) e.

Inductive ectx :=
| EHole
| EAppL (E : ectx) (a : term)
| EAppR (f : term) (E : ectx)
| ELet (ann : term) (E : ectx) (rest : list (term * term)) (b : term)
| ENeg (E : ectx)
| EBinL (o : binop) (E : ectx) (b : term)
| EBinR (o : binop) (a : term) (E : ectx)
| EIf (E : ectx) (t e : term).

Fixpoint plug (E : ectx) (r : term) : term :=
  match E with
  | EHole => r
  | EAppL E a => TApp (plug E r) a
  | EAppR f E => TApp f (plug E r)
  | ELet ann E rest b => TLet ((ann, plug E r) :: rest) b
  | ENeg E => TNeg (plug E r)
  | EBinL o E b => TBin o (plug E r) b
  | EBinR o a E => TBin o a (plug E r)
  | EIf E t e => TIf (plug E r) t e
  end.

Fixpoint ectx_ok (E : ectx) : bool :=
  match E with
  | EHole => true
  | EAppL E _ | ELet _ E _ _ | ENeg E | EBinL _ E _ | EIf E _ _ => ectx_ok E
  | EAppR f E => is_value f && ectx_ok E
  | EBinR _ a E => is_value a && ectx_ok E
  end.

Definition cbv (t t' : term) : Prop :=
  exists E r r', ectx_ok E = true /\ t = plug E r /\ redex r r' /\ t' = plug E r'.

Inductive reason := DivByZero | FreeVariable | UnfilledHole | NotAFunction | NotAnInteger | NotABoolean.

Definition is_lam (t : term) := match t with TLam _ _ _ => true | _ => false end.
Definition is_lit (t : term) := match t with TLit _ => true | _ => false end.
Definition is_boolc (t : term) := match t with TTrue | TFalse => true | _ => false end.

Inductive stuck_redex : term -> reason -> Prop :=
| S_var i : stuck_redex (TVar i) FreeVariable
| S_hole id s : stuck_redex (THole id s) UnfilledHole
| S_app f a : is_value f = true -> is_value a = true -> is_lam f = false -> stuck_redex (TApp f a) NotAFunction
| S_neg a : is_value a = true -> is_lit a = false -> stuck_redex (TNeg a) NotAnInteger
| S_bin o a b : is_value a = true -> is_value b = true -> is_lit a && is_lit b = false ->
                stuck_redex (TBin o a b) NotAnInteger
| S_div x : stuck_redex (TBin OQuot (TLit x) (TLit 0)) DivByZero
| S_if c t e : is_value c = true -> is_boolc c = false -> stuck_redex (TIf c t e) NotABoolean.

Fixpoint stuck_reason (t : term) : option reason :=
  match t with
  | TVar _ => Some FreeVariable
  | THole _ _ => Some UnfilledHole
  | TApp f a =>
      if negb (is_value f) then stuck_reason f
      else if negb (is_value a) then stuck_reason a
      else if is_lam f then None else Some NotAFunction
  | TLet ds _ => match ds with (_, d) :: _ => if is_value d then None else stuck_reason d | [] => None end
  | TNeg a => if negb (is_value a) then stuck_reason a else if is_lit a then None else Some NotAnInteger
  | TBin o a b =>
      if negb (is_value a) then stuck_reason a
      else if negb (is_value b) then stuck_reason b
      else match a, b with
           | TLit _, TLit y => match o with OQuot => if (y =? 0)%Z then Some DivByZero else None | _ => None end
           | _, _ => Some NotAnInteger end
  | TIf c _ _ => if negb (is_value c) then stuck_reason c else if is_boolc c then None else Some NotABoolean
  | _ => None
  end.

