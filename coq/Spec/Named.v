(* C11: named terms and their capture-avoiding substitution - the reference that shifting and opening of the
   nameless terms are stated against. Names are numbers; a context is a list of names, innermost first; a
   name that no binder of the context binds is a global, numbered beyond the context. *)
From Coq Require Import List ZArith Lia Bool Arith.
Import ListNotations.
Require Import Gram.Model.Term.

Inductive nterm :=
| NType | NInt | NBool | NTrue | NFalse
| NLit (z : Z)
| NVar (x : nat)
| NLam (impl : bool) (x : nat) (dom body : nterm)
| NPi (impl : bool) (x : nat) (dom cod : nterm)
| NApp (f a : nterm)
| NLet (defs : list (nat * nterm * nterm)) (body : nterm)     (* name, annotation, definition *)
| NNeg (a : nterm)
| NBin (o : binop) (a b : nterm)
| NIf (c t e : nterm).

Section ind.
  Variable P : nterm -> Prop.
  Hypotheses
    (Hty : P NType) (Hint : P NInt) (Hbool : P NBool) (Htrue : P NTrue) (Hfalse : P NFalse)
    (Hlit : forall z, P (NLit z)) (Hvar : forall x, P (NVar x))
    (Hlam : forall i x d b, P d -> P b -> P (NLam i x d b))
    (Hpi : forall i x d b, P d -> P b -> P (NPi i x d b))
    (Happ : forall f a, P f -> P a -> P (NApp f a))
    (Hlet : forall ds b, Forall (fun p => P (snd (fst p)) /\ P (snd p)) ds -> P b -> P (NLet ds b))
    (Hneg : forall a, P a -> P (NNeg a))
    (Hbin : forall o a b, P a -> P b -> P (NBin o a b))
    (Hif : forall c t e, P c -> P t -> P e -> P (NIf c t e)).
  Fixpoint nterm_ind' (t : nterm) : P t :=
    match t with
    | NType => Hty | NInt => Hint | NBool => Hbool | NTrue => Htrue | NFalse => Hfalse
    | NLit z => Hlit z | NVar x => Hvar x
    | NLam i x d b => Hlam i x d b (nterm_ind' d) (nterm_ind' b)
    | NPi i x d b => Hpi i x d b (nterm_ind' d) (nterm_ind' b)
    | NApp f a => Happ f a (nterm_ind' f) (nterm_ind' a)
    | NLet ds b => Hlet ds b
        ((fix go (l : list (nat * nterm * nterm)) : Forall (fun p => P (snd (fst p)) /\ P (snd p)) l :=
            match l with
            | [] => Forall_nil _
            | p :: r => Forall_cons p (conj (nterm_ind' (snd (fst p))) (nterm_ind' (snd p))) (go r)
            end) ds) (nterm_ind' b)
    | NNeg a => Hneg a (nterm_ind' a)
    | NBin o a b => Hbin o a b (nterm_ind' a) (nterm_ind' b)
    | NIf c t e => Hif c t e (nterm_ind' c) (nterm_ind' t) (nterm_ind' e)
    end.
End ind.

(* position of a name in a context (innermost binding wins) *)
Fixpoint pos (x : nat) (G : list nat) : option nat :=
  match G with
  | [] => None
  | y :: G' => if Nat.eqb x y then Some 0 else match pos x G' with Some i => Some (S i) | None => None end
  end.
Definition idx (x : nat) (G : list nat) : nat := match pos x G with Some i => i | None => length G + x end.

Definition def_names (ds : list (nat * nterm * nterm)) : list nat := map (fun p => fst (fst p)) ds.
(* entering a group: the last definition is the innermost variable *)
Definition enter_names (ds : list (nat * nterm * nterm)) (G : list nat) : list nat := rev (def_names ds) ++ G.

(* names -> indices *)
Fixpoint dbt (G : list nat) (t : nterm) : term :=
  match t with
  | NType => TType | NInt => TInt | NBool => TBool | NTrue => TTrue | NFalse => TFalse
  | NLit z => TLit z
  | NVar x => TVar (idx x G)
  | NLam im x d b => TLam im (dbt G d) (dbt (x :: G) b)
  | NPi im x d b => TPi im (dbt G d) (dbt (x :: G) b)
  | NApp f a => TApp (dbt G f) (dbt G a)
  | NLet ds b => let G' := enter_names ds G in
      TLet (map (fun p => (dbt G' (snd (fst p)), dbt G' (snd p))) ds) (dbt G' b)
  | NNeg a => TNeg (dbt G a)
  | NBin o a b => TBin o (dbt G a) (dbt G b)
  | NIf c t e => TIf (dbt G c) (dbt G t) (dbt G e)
  end.

(* free names *)
Fixpoint nfree (x : nat) (t : nterm) : bool :=
  match t with
  | NVar y => Nat.eqb x y
  | NLam _ y d b | NPi _ y d b => nfree x d || (negb (Nat.eqb x y) && nfree x b)
  | NApp f a => nfree x f || nfree x a
  | NLet ds b =>
      negb (existsb (Nat.eqb x) (def_names ds)) &&
      (existsb (fun p => nfree x (snd (fst p)) || nfree x (snd p)) ds || nfree x b)
  | NNeg a => nfree x a
  | NBin _ a b => nfree x a || nfree x b
  | NIf c t e => nfree x c || nfree x t || nfree x e
  | _ => false
  end.

(* the names bound somewhere inside t *)
Fixpoint bnames (t : nterm) : list nat :=
  match t with
  | NLam _ y d b | NPi _ y d b => y :: bnames d ++ bnames b
  | NApp f a => bnames f ++ bnames a
  | NLet ds b => def_names ds ++ flat_map (fun p => bnames (snd (fst p)) ++ bnames (snd p)) ds ++ bnames b
  | NNeg a => bnames a
  | NBin _ a b => bnames a ++ bnames b
  | NIf c t e => bnames c ++ bnames t ++ bnames e
  | _ => []
  end.

(* substitution of u for the free occurrences of x; it stops at a binder that re-binds x. It is capture-avoiding
   whenever no name bound inside t is free in u (the variable convention) - the side condition of the theorems *)
Fixpoint nsubst (x : nat) (u : nterm) (t : nterm) : nterm :=
  match t with
  | NVar y => if Nat.eqb y x then u else t
  | NLam im y d b => NLam im y (nsubst x u d) (if Nat.eqb y x then b else nsubst x u b)
  | NPi im y d b => NPi im y (nsubst x u d) (if Nat.eqb y x then b else nsubst x u b)
  | NApp f a => NApp (nsubst x u f) (nsubst x u a)
  | NLet ds b =>
      if existsb (Nat.eqb x) (def_names ds) then t
      else NLet (map (fun p => (fst (fst p), nsubst x u (snd (fst p)), nsubst x u (snd p))) ds) (nsubst x u b)
  | NNeg a => NNeg (nsubst x u a)
  | NBin o a b => NBin o (nsubst x u a) (nsubst x u b)
  | NIf c t e => NIf (nsubst x u c) (nsubst x u t) (nsubst x u e)
  | _ => t
  end.
