(* C08: the scoping discipline, stated over a STACK of names (independent of the name->depth map, the
   scope guards and the depth arithmetic of resolve_variables).
     - a variable denotes the innermost binder of that name: its index is its position in the stack;
     - a function or function-type parameter scopes over the body / codomain only;
     - all definitions of a maximal chain of lets scope over every annotation, definition and the body;
     - using a name that is not on the stack, or binding a name that already is, is an error;
     - `_` never binds (it occupies a slot that no occurrence can refer to) and, used as an expression,
       denotes a fresh hole. *)
From Coq Require Import List ZArith NArith Lia Bool Arith.
Import ListNotations.
Require Import Gram.Model.Term Gram.Model.Token Gram.Model.Grammar Gram.Model.Parser Gram.Model.ParserPost.

Fixpoint index_of (x : name) (G : list name) : option nat :=
  match G with
  | [] => None
  | y :: G' => if name_eqb x y then Some 0 else match index_of x G' with Some i => Some (S i) | None => None end
  end.
Definition bound (x : name) (G : list name) : bool := match index_of x G with Some _ => true | None => false end.
Definition is_placeholder (x : name) : bool := name_eqb x placeholder.

(* result: the resolved term and the next fresh hole id; None = scoping error *)
Fixpoint sresolve (fuel : nat) (G : list name) (t : pterm) (h : nat) : option (term * nat) :=
  match fuel with
  | O => None
  | S f =>
    match t with
    | PError _ => None
    | PType _ => Some (TType, h) | PInt _ => Some (TInt, h) | PBool _ => Some (TBool, h)
    | PTrue _ => Some (TTrue, h) | PFalse _ => Some (TFalse, h) | PLit _ z => Some (TLit z, h)
    | PVar _ x =>
        if is_placeholder x then Some (THole h 0, S h)
        else match index_of x G with Some i => Some (TVar i, h) | None => None end
    | PLam _ x _ _ im d b =>
        match (match d with Some d => sresolve f G d h | None => Some (THole h 0, S h) end) with
        | None => None
        | Some (d', h1) =>
            if negb (is_placeholder x) && bound x G then None
            else match sresolve f (x :: G) b h1 with Some (b', h2) => Some (TLam im d' b', h2) | None => None end
        end
    | PPi _ x _ _ im d b =>
        match sresolve f G d h with
        | None => None
        | Some (d', h1) =>
            if negb (is_placeholder x) && bound x G then None
            else match sresolve f (x :: G) b h1 with Some (b', h2) => Some (TPi im d' b', h2) | None => None end
        end
    | PApp _ g a =>
        match sresolve f G g h with
        | Some (g', h1) => match sresolve f G a h1 with Some (a', h2) => Some (TApp g' a', h2) | None => None end
        | None => None end
    | PLet _ _ _ _ _ _ _ =>
        let '(defs, body) := collect_definitions t in
        let n := length defs in
        (* push the names one by one; binding a name that is already in scope is an error *)
        let G' := fold_left (fun (acc : option (list name)) (df : name * option pterm * pterm) =>
                               match acc with
                               | None => None
                               | Some G1 => let x := fst (fst df) in
                                   if negb (is_placeholder x) && bound x G1 then None else Some (x :: G1)
                               end) defs (Some G) in
        match G' with
        | None => None
        | Some G2 =>
            let rdefs :=
              fold_left (fun (acc : option (list (term * term) * nat * nat)) (df : name * option pterm * pterm) =>
                           match acc with
                           | None => None
                           | Some (l, h, i) =>
                               let '(_, an, d) := df in
                               match (match an with Some a => sresolve f G2 a h | None => Some (THole h (n - i), S h) end) with
                               | None => None
                               | Some (an', h1) =>
                                   match sresolve f G2 d h1 with
                                   | Some (d', h2) => Some (l ++ [(an', d')], h2, S i)
                                   | None => None end
                               end
                           end) defs (Some ([], h, 0)) in
            match rdefs with
            | None => None
            | Some (l, h1, _) => match sresolve f G2 body h1 with Some (b', h2) => Some (TLet l b', h2) | None => None end
            end
        end
    | PNeg _ a => match sresolve f G a h with Some (a', h1) => Some (TNeg a', h1) | None => None end
    | PBin _ o a b =>
        match sresolve f G a h with
        | Some (a', h1) => match sresolve f G b h1 with Some (b', h2) => Some (TBin o a' b', h2) | None => None end
        | None => None end
    | PIf _ c a b =>
        match sresolve f G c h with
        | Some (c', h1) =>
            match sresolve f G a h1 with
            | Some (a', h2) => match sresolve f G b h2 with Some (b', h3) => Some (TIf c' a' b', h3) | None => None end
            | None => None end
        | None => None end
    end
  end.

(* the specification of parse()'s scoping stage on a syntactically accepted tree *)
Definition scope_spec (t : pterm) : option term :=
  match sresolve (S (psize t)) [] t 0 with Some (r, _) => Some r | None => None end.

(* what the parser's own stages produce before scoping (for the comparison) *)
Definition syntax_tree (toks : list ptok) : option pterm :=
  match parse_stage1 toks true with (S1Tree t, _, _) => Some (reassociate t) | _ => None end.

(* re-parsing a token slice in a given scope (a stack of names, innermost first): used by the C15
   oracle "the text of a reported range, parsed in the scope of that node, is that node" *)
Definition reparse_in_scope (toks : list ptok) (scope : list name) : option term :=
  match syntax_tree toks with
  | None => None
  | Some t => match sresolve (S (psize t)) scope t 0 with Some (r, _) => Some r | None => None end
  end.
