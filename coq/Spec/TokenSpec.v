(* C09: what it means for a token list to partition a source text. `partition_ok` is the direct
   oracle that the check runs on the IMPLEMENTATION's token list; it reads nothing from the
   generated tables (the lexemes below are the tokens' own texts, src/token.rs Display). *)
From Coq Require Import List ZArith NArith Lia Bool Arith.
Import ListNotations.
Require Import Gram.Model.Token Gram.Model.Tokenizer.

(* the text of each fixed token *)
Definition lexeme_of (k : tkind) : option (list N) :=
  match k with
  | KAsterisk => Some [42] | KBoolean => Some [98;111;111;108] | KColon => Some [58]
  | KDoubleEquals => Some [61;61] | KElse => Some [101;108;115;101] | KEquals => Some [61]
  | KFalse => Some [102;97;108;115;101] | KGreaterThan => Some [62] | KGreaterThanOrEqualTo => Some [62;61]
  | KIdentifier => None | KIf => Some [105;102] | KInteger => Some [105;110;116] | KIntegerLiteral => None
  | KLeftCurly => Some [123] | KLeftParen => Some [40] | KLessThan => Some [60] | KLessThanOrEqualTo => Some [60;61]
  | KMinus => Some [45] | KPlus => Some [43] | KRightCurly => Some [125] | KRightParen => Some [41]
  | KSlash => Some [47] | KLineBreak => Some [10] | KSemicolon => Some [59] | KThen => Some [116;104;101;110]
  | KThickArrow => Some [61;62] | KThinArrow => Some [45;62] | KTrue => Some [116;114;117;101]
  | KType => Some [116;121;112;101]
  end%N.

Definition keyword_kinds : list tkind := [KBoolean; KElse; KFalse; KIf; KInteger; KThen; KTrue; KType].
Definition is_keyword_text (w : list N) : bool :=
  existsb (fun k => match lexeme_of k with Some x => list_N_eqb x w | None => false end) keyword_kinds.

Definition word_char (c : ch) : bool := alnum c || N.eqb (cp c) c_us.
Definition word_start (c : ch) : bool := alpha c || N.eqb (cp c) c_us.
Definition word_shaped (x : list ch) : bool :=
  match x with c :: r => word_start c && forallb word_char r | [] => false end.

Fixpoint decimal (acc : Z) (x : list ch) : Z :=
  match x with [] => acc | c :: r => decimal (acc * 10 + (Z.of_N (cp c) - 48)) r end.

(* the characters of the token's range are exactly the token's own text *)
Definition lexeme_ok (v : tokv) (x : list ch) : bool :=
  match v with
  | TK k => match lexeme_of k with
            | Some w => list_N_eqb w (map cp x) && negb (tkind_eqb k KIdentifier)
            | None => false end
  | TIdent w => list_N_eqb w (map cp x) && word_shaped x && negb (is_keyword_text w)
  | TNum z => match x with [] => false | _ => forallb (fun c => is_digit (cp c)) x && (decimal 0 x =? z)%Z end
  end.

(* the token cannot be extended by the character that follows it *)
Definition is_word_kind (v : tokv) : bool :=
  match v with TIdent _ => true | TK k => existsb (tkind_eqb k) keyword_kinds | TNum _ => false end.
Definition maximal (v : tokv) (next : option ch) : bool :=
  match next with
  | None => true
  | Some c =>
      if is_word_kind v then negb (word_char c)
      else match v with
           | TNum _ => negb (is_digit (cp c))
           | TK KMinus => negb (N.eqb (cp c) 62)
           | TK KLessThan | TK KGreaterThan => negb (N.eqb (cp c) 61)
           | TK KEquals => negb (N.eqb (cp c) 61) && negb (N.eqb (cp c) 62)
           | _ => true
           end
  end.

Inductive pmode := PGap | PComment | PTok (t : tok) (rev_text : list ch).

Definition finish (t : tok) (acc : list ch) (next : option ch) : bool :=
  lexeme_ok (tv t) (rev acc) && maximal (tv t) next.

(* one gap character: whitespace (line breaks included), or `#` opening a comment *)
Definition gap_step (c : ch) : option pmode :=
  if N.eqb (cp c) c_nl then Some PGap
  else if N.eqb (cp c) c_hash then Some PComment
  else if ws c then Some PGap else None.

Fixpoint pwalk (cs : list ch) (i : nat) (m : pmode) (ts : list tok) : bool :=
  match cs with
  | [] =>
      match m with
      | PTok t acc => Nat.eqb i (tend t) && finish t acc None && match ts with [] => true | _ => false end
      | _ => match ts with [] => true | _ => false end
      end
  | c :: cs' =>
      let i' := i + width c in
      let in_gap (ts : list tok) :=
        match ts with
        | t :: ts' =>
            if Nat.eqb (tstart t) i then pwalk cs' i' (PTok t [c]) ts'
            else if Nat.ltb (tstart t) i then false
            else match gap_step c with Some m' => pwalk cs' i' m' ts | None => false end
        | [] => match gap_step c with Some m' => pwalk cs' i' m' ts | None => false end
        end in
      match m with
      | PGap => in_gap ts
      | PComment => if N.eqb (cp c) c_nl then in_gap ts else pwalk cs' i' PComment ts
      | PTok t acc =>
          if Nat.ltb i (tend t) then pwalk cs' i' (PTok t (c :: acc)) ts
          else Nat.eqb i (tend t) && finish t acc (Some c) && in_gap ts
      end
  end.

Definition partition_ok (cs : list ch) (ts : list tok) : bool := pwalk cs 0 PGap ts.

(* C10 direct oracle: the line-break rule on a token list with the layout between tokens.
   A LineBreak token may appear between tokens a and b only if a can end and b can start an expression. *)
Definition E_spec : list tkind :=     (* tokens that can END an expression; `;` counts *)
  [KBoolean; KFalse; KIdentifier; KInteger; KIntegerLiteral; KRightCurly; KRightParen; KSemicolon; KTrue; KType].
Definition S_spec : list tkind :=     (* tokens that can START an expression; `;` counts *)
  [KBoolean; KFalse; KIdentifier; KIf; KInteger; KIntegerLiteral; KLeftCurly; KLeftParen; KSemicolon; KTrue; KType].
Definition in_kinds (l : list tkind) (k : tkind) : bool := existsb (tkind_eqb k) l.

(* is there a line break among the characters with byte offsets in [lo, hi)? *)
Fixpoint has_nl (cs : list ch) (i lo hi : nat) : bool :=
  match cs with
  | [] => false
  | c :: cs' => (Nat.leb lo i && Nat.ltb i hi && N.eqb (cp c) c_nl) || has_nl cs' (i + width c) lo hi
  end.

(* The layout rule on a token list: between consecutive non-terminator-by-line-break tokens a and b
   there is a LineBreak token iff the gap contains a line break, a can end an expression and b can
   start one; no LineBreak token leads, trails or repeats. *)
Fixpoint layout_walk (cs : list ch) (prev : option tok) (pending_lb : bool) (ts : list tok) : bool :=
  match ts with
  | [] => negb pending_lb
  | t :: ts' =>
      if is_lbv (tv t) then
        match prev with
        | None => false
        | Some _ => negb pending_lb && layout_walk cs prev true ts'
        end
      else
        match prev with
        | None => layout_walk cs (Some t) false ts'
        | Some a =>
            let expected := has_nl cs 0 (tend a) (tstart t) && in_kinds E_spec (kind_of (tv a)) && in_kinds S_spec (kind_of (tv t)) in
            Bool.eqb pending_lb expected && layout_walk cs (Some t) false ts'
        end
  end.
Definition layout_ok (cs : list ch) (ts : list tok) : bool := layout_walk cs None false ts.
