(* An independent reference interpreter for C02: big-step, environments and closures, an
   append-only store of cells for definition groups (a cell is empty until its definition has been
   evaluated, which is what "a definition that is not yet available" means). No substitution, no
   index shifting: it shares nothing with src/evaluator.rs or src/de_bruijn.rs. *)
From Coq Require Import List ZArith Lia Bool Arith.
Import ListNotations.
Require Import Gram.Model.Term Gram.Spec.Cbv Gram.Model.Eval.

Inductive value :=
| VLit (z : Z) | VTrue | VFalse | VTypeT | VIntT | VBoolT
| VClos (env : list nat) (impl : bool) (dom body : term)
| VPi (env : list nat) (impl : bool) (dom cod : term).

Inductive result := ROk (v : value) | RStuck (k : reason) | RFuel.

Definition store := list (option value).

Fixpoint set_cell (s : store) (i : nat) (v : value) : store :=
  match s, i with
  | [], _ => []
  | _ :: s', O => Some v :: s'
  | c :: s', S i' => c :: set_cell s' i' v
  end.

Definition lookup (s : store) (env : list nat) (i : nat) : result :=
  match nth_error env i with
  | None => RStuck FreeVariable
  | Some c => match nth_error s c with Some (Some v) => ROk v | _ => RStuck FreeVariable end
  end.

Definition prim (o : binop) (x y : Z) : result :=
  match o with
  | OSum => ROk (VLit (x + y)) | ODiff => ROk (VLit (x - y)) | OProd => ROk (VLit (x * y))
  | OQuot => if (y =? 0)%Z then RStuck DivByZero else ROk (VLit (Z.quot x y))
  | OLt => ROk (if (x <? y)%Z then VTrue else VFalse)
  | OLe => ROk (if (x <=? y)%Z then VTrue else VFalse)
  | OEq => ROk (if (x =? y)%Z then VTrue else VFalse)
  | OGt => ROk (if (x >? y)%Z then VTrue else VFalse)
  | OGe => ROk (if (x >=? y)%Z then VTrue else VFalse)
  end.

(* cells for a group of n definitions allocated at the end of the store: the first definition gets
   cell |s|, the last |s|+n-1; inside the group the LAST definition has index 0 *)
Definition group_env (base n : nat) (env : list nat) : list nat := rev (seq base n) ++ env.

Fixpoint eval_env (fuel : nat) (s : store) (env : list nat) (t : term) : store * result :=
  match fuel with
  | O => (s, RFuel)
  | S f =>
    match t with
    | THole _ _ => (s, RStuck UnfilledHole)
    | TType => (s, ROk VTypeT) | TInt => (s, ROk VIntT) | TBool => (s, ROk VBoolT)
    | TTrue => (s, ROk VTrue) | TFalse => (s, ROk VFalse) | TLit z => (s, ROk (VLit z))
    | TVar i => (s, lookup s env i)
    | TLam im d b => (s, ROk (VClos env im d b))
    | TPi im d b => (s, ROk (VPi env im d b))
    | TApp g a =>
        match eval_env f s env g with
        | (s1, ROk vg) =>
            match eval_env f s1 env a with
            | (s2, ROk va) =>
                match vg with
                | VClos cenv _ _ body =>
                    let c := length s2 in
                    eval_env f (s2 ++ [Some va]) (c :: cenv) body
                | _ => (s2, RStuck NotAFunction)
                end
            | r => r
            end
        | r => r
        end
    | TLet ds b =>
        let base := length s in
        let n := length ds in
        let env' := group_env base n env in
        let fix defs (s : store) (k : nat) (l : list (term * term)) : store * option result :=
          match l with
          | [] => (s, None)
          | (_, d) :: l' =>
              match eval_env f s env' d with
              | (s1, ROk v) => defs (set_cell s1 k v) (S k) l'
              | (s1, r) => (s1, Some r)
              end
          end in
        match defs (s ++ repeat None n) base ds with
        | (s1, Some r) => (s1, r)
        | (s1, None) => eval_env f s1 env' b
        end
    | TNeg a =>
        match eval_env f s env a with
        | (s1, ROk (VLit z)) => (s1, ROk (VLit (- z)))
        | (s1, ROk _) => (s1, RStuck NotAnInteger)
        | r => r
        end
    | TBin o a b =>
        match eval_env f s env a with
        | (s1, ROk va) =>
            match eval_env f s1 env b with
            | (s2, ROk vb) =>
                match va, vb with
                | VLit x, VLit y => (s2, prim o x y)
                | _, _ => (s2, RStuck NotAnInteger)
                end
            | r => r
            end
        | r => r
        end
    | TIf c a b =>
        match eval_env f s env c with
        | (s1, ROk VTrue) => eval_env f s1 env a
        | (s1, ROk VFalse) => eval_env f s1 env b
        | (s1, ROk _) => (s1, RStuck NotABoolean)
        | r => r
        end
    end
  end.

Definition run_env (fuel : nat) (t : term) : result := snd (eval_env fuel [] [] t).

(* the observable part of a value: ground values exactly, other values by their former *)
Inductive obs := OLit (z : Z) | OTrue | OFalse | OTypeT | OIntT | OBoolT | OFun | OPiT.
Definition obs_of_value (v : value) : obs :=
  match v with
  | VLit z => OLit z | VTrue => OTrue | VFalse => OFalse | VTypeT => OTypeT | VIntT => OIntT | VBoolT => OBoolT
  | VClos _ _ _ _ => OFun | VPi _ _ _ _ => OPiT
  end.
Definition obs_of_term (t : term) : option obs :=
  match t with
  | TLit z => Some (OLit z) | TTrue => Some OTrue | TFalse => Some OFalse | TType => Some OTypeT
  | TInt => Some OIntT | TBool => Some OBoolT | TLam _ _ _ => Some OFun | TPi _ _ _ => Some OPiT
  | _ => None
  end.
