(* C16  Printed terms read back as the same term.
   The printer model `print` mirrors Display / group / binder_domain; which formers `group` leaves
   bare is regenerated from term.rs and pinned below. The round-trip property is decided on the
   implementation directly (parse, print, re-parse in the same scope, compare) for every former in
   every operand position of every other and for generated programs; the universal theorem
   (C16_roundtrip_statement) needs the parser's completeness on printed terms and is not proved.
   The recorded finding D12 is reproduced inside the model below. *)
From Coq Require Import List ZArith Bool.
Import ListNotations.
Require Import Gram.Model.Term Gram.Model.DeBruijn Gram.Model.Eval Gram.Model.Token Gram.Gen.ValueForms Gram.Model.Printer Gram.Proofs.FormsProofs.
Require Gram.Model.Grammar Gram.Proofs.SoundProofs Gram.Proofs.PrintProofs.
Require Gram.Model.Parser Gram.Model.ParserPost Gram.Proofs.ReassocProofs Gram.Proofs.TreeDerivation Gram.Proofs.PrintRoundTrip.

Theorem C16_group_bare_is_atoms : group_bare = [FType; FVar; FInt; FLit; FBool; FTrue; FFalse].
Proof. exact group_bare_is_atoms. Qed.
Check C16_group_bare_is_atoms : group_bare = [FType; FVar; FInt; FLit; FBool; FTrue; FFalse].
Print Assumptions C16_group_bare_is_atoms.

(* D12 in the model: {a : int} -> int prints as { int } -> int, which grammar.y does not derive *)
Theorem C16_D12_refuted :
  has_unused_implicit_pi (TPi true TInt TInt) = true /\
  print (TPi true TInt TInt) = [KLeftCurly; KInteger; KRightCurly; KThinArrow; KInteger].
Proof. vm_compute. split; reflexivity. Qed.
Check C16_D12_refuted : has_unused_implicit_pi (TPi true TInt TInt) = true /\ print (TPi true TInt TInt) = _.
Print Assumptions C16_D12_refuted.

(* a group in a binder's domain is parenthesised (repair D13); operands are grouped *)
Theorem C16_examples :
  print (TLam false (TLet [(TType, TInt)] (TVar 0)) (TVar 0))
    = [KLeftParen; KIdentifier; KColon; KLeftParen; KIdentifier; KColon; KType; KEquals; KInteger; KSemicolon; KIdentifier; KRightParen;
       KRightParen; KThickArrow; KIdentifier] /\
  print (TBin ODiff (TLit 10) (TBin ODiff (TLit 5) (TLit 3)))
    = [KIntegerLiteral; KMinus; KLeftParen; KIntegerLiteral; KMinus; KIntegerLiteral; KRightParen] /\
  print (TApp (TApp (TVar 0) (TVar 1)) (TApp (TVar 0) (TVar 1)))
    = [KIdentifier; KIdentifier; KLeftParen; KIdentifier; KIdentifier; KRightParen].
Proof. vm_compute. repeat split; reflexivity. Qed.
Check C16_examples : _ /\ _ /\ _.
Print Assumptions C16_examples.

(* What the printer shows is a SENTENCE of the published grammar, with each printing position at the nonterminal the
   printer intends (Proofs/PrintProofs.v, against the grammar regenerated from grammar.y): for every term without the
   recorded defect D12 (an implicit function type with unused variable) and without negative literals (the parser never
   produces one). The exclusions are exact up to a size bound: on 10395 small terms covering every printing position
   the printed tokens are a sentence IF AND ONLY IF the term is in the exact class (negative literals are harmful
   only as a definition's annotation or in the domain of a non-dependent function type); D12 and those shapes are
   refuted inside Coq by a verified recogniser. *)
Theorem C16_print_is_sentence : forall t, PrintProofs.printable t = true -> SoundProofs.derives Grammar.Term (print t).
Proof. exact PrintProofs.print_is_sentence. Qed.
Check C16_print_is_sentence : forall t, PrintProofs.printable t = true -> SoundProofs.derives Grammar.Term (print t).
Print Assumptions C16_print_is_sentence.

Theorem C16_exclusions_are_exact_on_small_terms : forall t, In t PrintProofs.small_terms ->
  (SoundProofs.derives Grammar.Term (print t) <-> PrintProofs.printable_exact t = true).
Proof. exact PrintProofs.exact_on_small_terms. Qed.
Check C16_exclusions_are_exact_on_small_terms : forall t, In t PrintProofs.small_terms ->
  (SoundProofs.derives Grammar.Term (print t) <-> PrintProofs.printable_exact t = true).
Print Assumptions C16_exclusions_are_exact_on_small_terms.

Theorem C16_D12_is_not_a_sentence : ltac:(let T := type of PrintProofs.unused_implicit_pi_not_sentence in exact T).
Proof. exact PrintProofs.unused_implicit_pi_not_sentence. Qed.
Check C16_D12_is_not_a_sentence : _ /\ ~ SoundProofs.derives Grammar.Term (print (TPi true TInt TInt)).
Print Assumptions C16_D12_is_not_a_sentence.

(* THE ROUND TRIP, at the level of structure (Proofs/PrintRoundTrip.v): for every printable term t and EVERY token list whose
   kinds are `print t` (whatever names, byte ranges, literal values) the parser model accepts, its raw tree is the image of
   the printer's intended derivation - the only derivation of that text - and after re-association the tree has exactly the
   skeleton of t: same operators with the same operands, same grouping, same implicitness, same definition structure,
   same positions of literals; with the literal values of t on the tokens, the same literals. Names and de Bruijn indices
   are outside the kind-level printer model (they are compared on the implementation). What the kind level already
   identifies is recorded: a hole and a variable are both an identifier; a group whose body is a group prints as the merged
   group; the empty group prints as its body. *)
Theorem C16_print_reads_back_same_structure : forall t toks memo,
  PrintProofs.printable t = true -> map Parser.pk toks = print t ->
  exists raw m s, Parser.parse_stage1 toks memo = (Parser.S1Tree raw, m, s) /\
    ReassocProofs.gstrip raw = TreeDerivation.gtree_of toks (PrintRoundTrip.dprint t) /\
    PrintRoundTrip.unlit (PrintRoundTrip.gshape (ReassocProofs.strip (ParserPost.reassociate raw))) = PrintRoundTrip.unlit (PrintRoundTrip.shape t).
Proof. exact PrintRoundTrip.print_reads_back_same_structure. Qed.
Check C16_print_reads_back_same_structure : forall t toks memo,
  PrintProofs.printable t = true -> map Parser.pk toks = print t ->
  exists raw m s, Parser.parse_stage1 toks memo = (Parser.S1Tree raw, m, s) /\
    ReassocProofs.gstrip raw = TreeDerivation.gtree_of toks (PrintRoundTrip.dprint t) /\
    PrintRoundTrip.unlit (PrintRoundTrip.gshape (ReassocProofs.strip (ParserPost.reassociate raw))) = PrintRoundTrip.unlit (PrintRoundTrip.shape t).
Print Assumptions C16_print_reads_back_same_structure.

Theorem C16_print_reads_back_same_structure_and_literals : forall t toks memo,
  PrintProofs.printable t = true -> map Parser.pk toks = print t ->
  PrintRoundTrip.lit_values toks = PrintRoundTrip.lits (PrintRoundTrip.shape t) ->
  exists raw m s, Parser.parse_stage1 toks memo = (Parser.S1Tree raw, m, s) /\
    PrintRoundTrip.gshape (ReassocProofs.strip (ParserPost.reassociate raw)) = PrintRoundTrip.shape t.
Proof. exact PrintRoundTrip.print_reads_back_same_structure_values. Qed.
Check C16_print_reads_back_same_structure_and_literals : forall t toks memo,
  PrintProofs.printable t = true -> map Parser.pk toks = print t ->
  PrintRoundTrip.lit_values toks = PrintRoundTrip.lits (PrintRoundTrip.shape t) ->
  exists raw m s, Parser.parse_stage1 toks memo = (Parser.S1Tree raw, m, s) /\
    PrintRoundTrip.gshape (ReassocProofs.strip (ParserPost.reassociate raw)) = PrintRoundTrip.shape t.
Print Assumptions C16_print_reads_back_same_structure_and_literals.

