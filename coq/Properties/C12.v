(* C12  Unification succeeds only with a consistent, well-scoped solution.
   The property is decided on the implementation by a PROVED validator: after every successful
   unify, both sides are zonked with the recorded solutions and handed to the conversion test of
   Oracle/Infer.v, whose success implies definitional equality (convb_sound); scope (solutions of
   top-level holes must be closed) and acyclicity of the store are checked on the exported store.
   Reflexivity on hole-free terms is the theorem below for the mirror of the hole-free arms. The
   store-level invariants of a Model B mirror of unify (only-fills, acyclic, scoped) are not proved
   in this development yet; D9 (a hole copied by `open` loses its identity) is a recorded finding. *)
From Coq Require Import List ZArith Bool Relations.
Import ListNotations.
Require Import Gram.Model.Term Gram.Model.DeBruijn Gram.Model.Eval Gram.Spec.Typing Gram.Oracle.Infer Gram.Proofs.InferSound Gram.Proofs.ConvProofs.

Theorem C12_validator_sound : forall fuel G a b, convb fuel G a b = Some true -> conv G a b.
Proof. exact convb_sound. Qed.
Check C12_validator_sound : forall fuel G a b, convb fuel G a b = Some true -> conv G a b.
Print Assumptions C12_validator_sound.

Theorem C12_refl_holefree : forall fuel G t, convb fuel G t t <> Some false.
Proof. exact convb_refl. Qed.
Check C12_refl_holefree : forall fuel G t, convb fuel G t t <> Some false.
Print Assumptions C12_refl_holefree.

Theorem C12_reduct : forall t G t', step t = Some t' -> conv G t t'.
Proof. exact step_in_conv. Qed.
Check C12_reduct : forall t G t', step t = Some t' -> conv G t t'.
Print Assumptions C12_reduct.
