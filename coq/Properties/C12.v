(* C12  Unification succeeds only with a consistent, well-scoped solution.
   The property is decided on the implementation by a PROVED validator: after every successful
   unify, both sides are zonked with the recorded solutions and handed to the conversion test of
   Oracle/Infer.v, whose success implies definitional equality (convb_sound); scope (solutions of
   top-level holes must be closed) and acyclicity of the store are checked on the exported store.
   Reflexivity on hole-free terms is the theorem below for the mirror of the hole-free arms.
   Consistency of the store is a theorem of Model B (the store-passing mirror of unify / type_check
   that the C12 and MB streams compare with the implementation): for every input, unification and
   type checking only EXTEND the store - a recorded solution is never changed or removed, cells are
   only appended - and the cell that unify assigns is an unsolved one, because a weak-head normal
   form that is a hole is an unsolved hole (Proofs/StoreProofs.v, StoreTc.v). "No hole is solved by a
   term containing itself" is a theorem too: the store stays ACYCLIC through unification and type
   checking (Proofs/AcyclicProofs.v, AcyclicTc.v) - the recorded solution consists of unsolved cells
   only (the lowering shift inlines solved ones), the occurs check is sound for reachability through
   solved cells, so an assignment can only add edges into cells without outgoing edges. Scope of the
   solutions is validated per instance; D9 (a hole copied by `open` loses its identity) is a
   recorded finding. *)
From Coq Require Import List ZArith Bool Relations.
Import ListNotations.
Require Import Gram.Model.Term Gram.Model.DeBruijn Gram.Model.Eval Gram.Spec.Typing Gram.Oracle.Infer Gram.Proofs.InferSound Gram.Proofs.ConvProofs.
Require Import Gram.Model.ModelB Gram.Proofs.StoreProofs Gram.Proofs.StoreTc Gram.Proofs.AcyclicProofs Gram.Proofs.AcyclicTc Gram.Proofs.ScopedProofs Gram.Proofs.ScopeStore.
Require Gram.Proofs.TcSoundHF.
Require Import Gram.Proofs.UnifyConsistent.

Theorem C12_validator_sound : forall fuel G a b, convb fuel G a b = Some true -> conv G a b.
Proof. exact convb_sound. Qed.
Check C12_validator_sound : forall fuel G a b, convb fuel G a b = Some true -> conv G a b.
Print Assumptions C12_validator_sound.

Theorem C12_refl_holefree : forall fuel G t, convb fuel G t t <> Some false.
Proof. exact convb_refl. Qed.
Check C12_refl_holefree : forall fuel G t, convb fuel G t t <> Some false.
Print Assumptions C12_refl_holefree.

Theorem C12_reduct : forall t G t', step t = Some t' -> conv G t t'.
Proof. exact step_in_conv. Qed.
Check C12_reduct : forall t G t', step t = Some t' -> conv G t t'.
Print Assumptions C12_reduct.

Theorem C12_unify_only_extends_the_store : forall f s D a b ok s',
  unifyB f s D a b = Some (ok, s') ->
  length s <= length s' /\ forall id t, sget s id = Some t -> sget s' id = Some t.
Proof. exact unifyB_ext. Qed.
Check C12_unify_only_extends_the_store : forall f s D a b ok s',
  unifyB f s D a b = Some (ok, s') ->
  length s <= length s' /\ forall id t, sget s id = Some t -> sget s' id = Some t.
Print Assumptions C12_unify_only_extends_the_store.

Theorem C12_whnf_hole_is_unsolved : forall f s D t id sh s', whnfB f s D t = Some (THole id sh, s') -> sget s' id = None.
Proof. exact whnfB_hole_unsolved. Qed.
Check C12_whnf_hole_is_unsolved : forall f s D t id sh s', whnfB f s D t = Some (THole id sh, s') -> sget s' id = None.
Print Assumptions C12_whnf_hole_is_unsolved.

Theorem C12_type_check_only_extends_the_store : forall f s G D t r,
  tcB f s G D t = Some r ->
  length s <= length (b_st r) /\ forall id u, sget s id = Some u -> sget (b_st r) id = Some u.
Proof. exact tcB_ext. Qed.
Check C12_type_check_only_extends_the_store : forall f s G D t r,
  tcB f s G D t = Some r ->
  length s <= length (b_st r) /\ forall id u, sget s id = Some u -> sget (b_st r) id = Some u.
Print Assumptions C12_type_check_only_extends_the_store.

(* non-vacuity: unifying the unsolved hole 0 with `int` solves exactly that cell *)
Example C12_example : unifyB 10 [None; Some TBool] [] (THole 0 0) TInt = Some (true, [Some TInt; Some TBool]).
Proof. vm_compute. reflexivity. Qed.

Theorem C12_unify_keeps_the_store_acyclic : forall f s D a b ok s',
  unifyB f s D a b = Some (ok, s') -> acyclic s -> acyclic s'.
Proof. exact unifyB_acyclic. Qed.
Check C12_unify_keeps_the_store_acyclic : forall f s D a b ok s',
  unifyB f s D a b = Some (ok, s') -> acyclic s -> acyclic s'.
Print Assumptions C12_unify_keeps_the_store_acyclic.

Theorem C12_type_check_never_records_a_cyclic_solution : forall f t nholes r,
  tcB f (repeat None nholes) [] [] t = Some r -> acyclic (b_st r).
Proof. exact checkB_store_acyclic. Qed.
Check C12_type_check_never_records_a_cyclic_solution : forall f t nholes r,
  tcB f (repeat None nholes) [] [] t = Some r -> acyclic (b_st r).
Print Assumptions C12_type_check_never_records_a_cyclic_solution.

Theorem C12_occurs_check_sound : forall f s id t, occursB f s id t = Some false -> ~ leaf s t id.
Proof. exact occursB_sound. Qed.
Check C12_occurs_check_sound : forall f s id t, occursB f s id t = Some false -> ~ leaf s t id.
Print Assumptions C12_occurs_check_sound.

(* non-vacuity: the occurs check through a cell solved earlier - ?1 := ?0, then ?0 against `- ?1` - is refused,
   and the store it leaves is acyclic *)
Example C12_acyclic_example :
  unifyB 12 [None; None] [] (TBin OSum (THole 1 0) (THole 0 0)) (TBin OSum (THole 0 0) (TNeg (THole 1 0)))
  = Some (false, [None; Some (THole 0 0)]).
Proof. vm_compute. reflexivity. Qed.

(* Scope of solutions (Proofs/ScopeStore.v). With a home depth for every cell (`H`), `wsc H lim n t` says: variables in
   range, every hole occurrence stands at its cell's home plus its shift, and NO hole is local to the term that
   mentions it; `store_ok H s`: every recorded solution is well scoped at the home of its cell. Unification
   preserves this, success or failure: the lowering guard of the hole arms is what makes it true. *)
Theorem C12_solutions_well_scoped : forall f s H D a b ok s',
  store_ok H s -> dctx_ok H D -> wsc H (length D) (length D) a -> wsc H (length D) (length D) b ->
  unifyB f s D a b = Some (ok, s') ->
  exists H', hext H H' /\ store_ok H' s'.
Proof. exact unifyB_solutions_scoped. Qed.
Check C12_solutions_well_scoped : forall f s H D a b ok s',
  store_ok H s -> dctx_ok H D -> wsc H (length D) (length D) a -> wsc H (length D) (length D) b ->
  unifyB f s D a b = Some (ok, s') ->
  exists H', hext H H' /\ store_ok H' s'.
Print Assumptions C12_solutions_well_scoped.

Theorem C12_solutions_read_back_well_scoped : forall f s H D a b ok s',
  store_ok H s -> dctx_ok H D -> wsc H (length D) (length D) a -> wsc H (length D) (length D) b ->
  unifyB f s D a b = Some (ok, s') ->
  exists H', hext H H' /\ forall id sol, sget s' id = Some sol ->
    exists h, nth_error H' id = Some h /\ forall g, wsc H' h h (zonkB g s' sol) /\
      (hole_free (zonkB g s' sol) = true -> scoped (zonkB g s' sol) h = true).
Proof. exact unifyB_solutions_zonk_scoped. Qed.
Check C12_solutions_read_back_well_scoped : forall f s H D a b ok s',
  store_ok H s -> dctx_ok H D -> wsc H (length D) (length D) a -> wsc H (length D) (length D) b ->
  unifyB f s D a b = Some (ok, s') ->
  exists H', hext H H' /\ forall id sol, sget s' id = Some sol ->
    exists h, nth_error H' id = Some h /\ forall g, wsc H' h h (zonkB g s' sol) /\
      (hole_free (zonkB g s' sol) = true -> scoped (zonkB g s' sol) h = true).
Print Assumptions C12_solutions_read_back_well_scoped.

(* ... and the side condition is necessary: recorded finding D19 inside Coq. Two unifications on inputs whose
   variables and hole shifts are all in range leave a cell written at depth 0 that reads back as a term with a
   free variable - the first solution has a hole LOCAL to it, and raising it leaves that hole's shift alone. *)
Theorem C12_scoping_refuted_D19 : ltac:(let T := type of CE.unify_local_hole_breaks_scoping in exact T).
Proof. exact CE.unify_local_hole_breaks_scoping. Qed.
Check C12_scoping_refuted_D19 : _ /\ _ /\ _ /\ _ /\ _ /\ _ /\ _ /\ scoped (zonkB 5 CE.sA2 (THole 0 0)) 0 = false.
Print Assumptions C12_scoping_refuted_D19.

(* THE PROPERTY, for every unification during which the two instrumented events do not occur (Proofs/UnifyConsistent.v).
   `unifyN` is the unifier of Model B in which the two call sites behind the recorded findings ABORT: `open` meeting an
   unsolved hole (hook H1, finding D9) and `signed_shift` leaving an unsolved hole below the cutoff (hook H3, finding D19).
   When it answers, the real unifier gives the same answer (unifyN_refines); and a positive answer is CONSISTENT - under
   every completion of the remaining unsolved cells and every context matching the definitions, the two sides are
   definitionally equal - and WELL SCOPED - every recorded solution mentions only variables in scope where its hole was
   written. Both aborts are necessary (computed counterexamples). This is what makes the run-time attribution of a
   failure to D9 / D19 by the hooks principled: a failure with both counters silent cannot be either finding. *)
Theorem C12_unification_consistent_and_well_scoped : forall H L f s D a b s',
  store_okL H L s -> dctx_okL H L D -> wsc H L (length D) a -> wsc H L (length D) b ->
  unifyN f s D a b = Some (true, s') ->
  unifyB f s D a b = Some (true, s') /\ store_okL H L s' /\ consistent_at D a b s'.
Proof. exact unifyN_consistent. Qed.
Check C12_unification_consistent_and_well_scoped : forall H L f s D a b s',
  store_okL H L s -> dctx_okL H L D -> wsc H L (length D) a -> wsc H L (length D) b ->
  unifyN f s D a b = Some (true, s') ->
  unifyB f s D a b = Some (true, s') /\ store_okL H L s' /\ consistent_at D a b s'.
Print Assumptions C12_unification_consistent_and_well_scoped.

Theorem C12_instrumented_unifier_refines : forall f s D a b r, unifyN f s D a b = Some r -> unifyB f s D a b = Some r.
Proof. exact unifyN_refines. Qed.
Check C12_instrumented_unifier_refines : forall f s D a b r, unifyN f s D a b = Some r -> unifyB f s D a b = Some r.
Print Assumptions C12_instrumented_unifier_refines.

Theorem C12_consistent_under_every_filling : forall H L f s a b s' v,
  store_okL H L s -> acyclic s -> wsc H L 0 a -> wsc H L 0 b -> hole_free v = true ->
  unifyN f s [] a b = Some (true, s') ->
  exists au bu, TcSoundHF.zk (fill v s') a au /\ TcSoundHF.zk (fill v s') b bu /\ conv [] au bu.
Proof. exact unifyN_consistent_filled. Qed.
Check C12_consistent_under_every_filling : forall H L f s a b s' v,
  store_okL H L s -> acyclic s -> wsc H L 0 a -> wsc H L 0 b -> hole_free v = true ->
  unifyN f s [] a b = Some (true, s') ->
  exists au bu, TcSoundHF.zk (fill v s') a au /\ TcSoundHF.zk (fill v s') b bu /\ conv [] au bu.
Print Assumptions C12_consistent_under_every_filling.

Theorem C12_both_events_are_necessary : ltac:(let T1 := type of Witness.H1_is_necessary in let T3 := type of Witness.H3_is_necessary in exact (T1 /\ T3)).
Proof. exact (conj Witness.H1_is_necessary Witness.H3_is_necessary). Qed.
Check C12_both_events_are_necessary : _ /\ _.
Print Assumptions C12_both_events_are_necessary.
