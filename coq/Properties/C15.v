(* C15  Diagnostics point at the offending source text.
   Proved for the listing model (mirror of src/error.rs `listing`): the lines shown are exactly the
   lines that intersect the reported range, with their 1-based numbers, and every marked section lies
   inside its (trimmed) line. The rendering and the overline column (characters, not bytes) are
   compared with the implementation. Proved for the parser model (Proofs/RangeProofs.v, an invariant of
   every parse call through the skeleton interpreter, the hand-modelled functions and the memo table):
   every node of an accepted parse carries the byte range from the first byte of its first token to the
   last byte of its last token, the children's token intervals tile the parent's as the production
   prescribes (parentheses widen only the parenthesised node), and the root spans the whole input - so
   the range bookkeeping spread over the parse functions cannot drift. That the implementation's ranges
   are the model's, that their text re-parses to the node, and that scoping / typing / lexing diagnostics
   mark exactly an identifier / a subexpression / the symbol, is decided on the implementation with the
   extracted re-parser. *)
From Coq Require Import List ZArith NArith Bool Arith.
Import ListNotations.
Require Import Gram.Model.Token Gram.Model.Tokenizer Gram.Model.Listing Gram.Spec.ListingSpec Gram.Proofs.ListingProofs Gram.Model.Grammar Gram.Model.Parser Gram.Model.ParserPost Gram.Proofs.RangeProofs.
Require Import Gram.Proofs.PartitionProofs Gram.Proofs.ListingExact Gram.Proofs.ListingTokens.

Theorem C15_listing_lines_exact : forall cs rs re, map lineno (listing cs rs re) = spec_linenos cs rs re.
Proof. exact listing_lines_exact. Qed.
Check C15_listing_lines_exact : forall cs rs re, map lineno (listing cs rs re) = spec_linenos cs rs re.
Print Assumptions C15_listing_lines_exact.

Theorem C15_section_in_line : forall lines k start rs re s,
  In s (listing_lines lines k start rs re) -> sec_end s <= bytes (ltext s) /\ sec_start s <= bytes (ltext s).
Proof. exact listing_section_in_line. Qed.
Check C15_section_in_line : forall lines k start rs re s,
  In s (listing_lines lines k start rs re) -> sec_end s <= bytes (ltext s) /\ sec_start s <= bytes (ltext s).
Print Assumptions C15_section_in_line.

(* non-vacuity: "ab\n  cd\nef" with the range of `b .. c`: lines 1 and 2, marks `b` and `c` *)
Definition ex15 := map asc [97;98;10;32;32;99;100;10;101;102]%N.
Theorem C15_example :
  map (fun s => (lineno s, sec_start s, sec_end s)) (listing ex15 1 6) = [(1, 1, 2); (2, 2, 3)] /\
  spec_linenos ex15 1 6 = [1; 2].
Proof. vm_compute. split; reflexivity. Qed.
Check C15_example : _ /\ spec_linenos ex15 1 6 = [1; 2].
Print Assumptions C15_example.

(* node ranges of the parser model: token spans, tiled by the children as the production prescribes *)
Theorem C15_tree_layout : forall toks memo t, fst (fst (parse_stage1 toks memo)) = S1Tree t -> layout toks t 0 (length toks).
Proof. exact parsed_tree_layout. Qed.
Check C15_tree_layout : forall toks memo t, fst (fst (parse_stage1 toks memo)) = S1Tree t -> layout toks t 0 (length toks).
Print Assumptions C15_tree_layout.

Theorem C15_every_node_spans_tokens : forall toks memo t, fst (fst (parse_stage1 toks memo)) = S1Tree t ->
  every_node (node_spanned toks 0 (length toks)) t.
Proof. exact parsed_tree_every_node_spans_tokens. Qed.
Check C15_every_node_spans_tokens : forall toks memo t, fst (fst (parse_stage1 toks memo)) = S1Tree t ->
  every_node (node_spanned toks 0 (length toks)) t.
Print Assumptions C15_every_node_spans_tokens.

Theorem C15_root_spans_input : forall toks memo t, fst (fst (parse_stage1 toks memo)) = S1Tree t -> toks <> [] ->
  exists first last, nth_error toks 0 = Some first /\ nth_error toks (length toks - 1) = Some last /\
                     prs (info t) = ps first /\ pre (info t) = pe last.
Proof. exact parsed_tree_spans_input. Qed.
Check C15_root_spans_input : forall toks memo t, fst (fst (parse_stage1 toks memo)) = S1Tree t -> toks <> [] ->
  exists first last, nth_error toks 0 = Some first /\ nth_error toks (length toks - 1) = Some last /\
                     prs (info t) = ps first /\ pre (info t) = pe last.
Print Assumptions C15_root_spans_input.

(* The marked section, character by character (Proofs/ListingExact.v): a character of a shown line is marked iff it
   starts inside the reported range, is not trailing whitespace, and - unless the range starts strictly inside that
   line - is not leading indentation; the text shown is the line without its trailing whitespace; the overline is
   placed by counting CHARACTERS, so multi-byte text before or inside the section cannot misplace it; and token
   spans - the ranges diagnostics carry - lie within the file on character boundaries. *)
Theorem C15_marked_characters_exact : forall cs rs re s, Forall chr_ok cs -> In s (listing cs rs re) ->
  exists pre l post,
    kth_line cs (lineno s - 1) pre l post /\ ltext s = trimmed l /\
    forall p c q, l = p ++ c :: q ->
      (sec_start s <= bytes p < sec_end s <->
       rs <= bytes pre + bytes p < re /\
       ~ Forall blank (c :: q) /\
       (rs <= bytes pre -> ~ Forall blank (p ++ [c]))).
Proof. exact marked_characters_exact. Qed.
Check C15_marked_characters_exact : forall cs rs re s, Forall chr_ok cs -> In s (listing cs rs re) ->
  exists pre l post,
    kth_line cs (lineno s - 1) pre l post /\ ltext s = trimmed l /\
    forall p c q, l = p ++ c :: q ->
      (sec_start s <= bytes p < sec_end s <->
       rs <= bytes pre + bytes p < re /\
       ~ Forall blank (c :: q) /\
       (rs <= bytes pre -> ~ Forall blank (p ++ [c]))).
Print Assumptions C15_marked_characters_exact.

Theorem C15_sections_exact : forall cs rs re s, Forall chr_ok cs -> In s (listing cs rs re) ->
  exists pre l post,
    kth_line cs (lineno s - 1) pre l post /\
    ltext s = trimmed l /\
    (sec_start s, sec_end s) = spec_section l (bytes pre) rs re /\
    bytes pre < re /\ rs <= bytes pre + bytes l.
Proof. exact listing_exact. Qed.
Check C15_sections_exact : forall cs rs re s, Forall chr_ok cs -> In s (listing cs rs re) ->
  exists pre l post,
    kth_line cs (lineno s - 1) pre l post /\
    ltext s = trimmed l /\
    (sec_start s, sec_end s) = spec_section l (bytes pre) rs re /\
    bytes pre < re /\ rs <= bytes pre + bytes l.
Print Assumptions C15_sections_exact.

Theorem C15_overline_counts_characters : forall s p m q,
  Forall pos_width (ltext s) ->
  ltext s = p ++ m ++ q ->
  list_sum (map width p) = sec_start s ->
  list_sum (map width p) + list_sum (map width m) = sec_end s ->
  overline s = (length p, length m).
Proof. exact overline_counts_characters. Qed.
Check C15_overline_counts_characters : forall s p m q,
  Forall pos_width (ltext s) ->
  ltext s = p ++ m ++ q ->
  list_sum (map width p) = sec_start s ->
  list_sum (map width p) + list_sum (map width m) = sec_end s ->
  overline s = (length p, length m).
Print Assumptions C15_overline_counts_characters.

Theorem C15_token_spans_on_character_boundaries : forall gend cs ts t,
  Forall ch_wf cs -> tokenize gend cs = Ok ts -> In t ts ->
  boundary cs (tstart t) /\ boundary cs (tend t) /\ tstart t <= tend t /\ tend t <= bytes cs.
Proof. exact token_spans_on_boundaries. Qed.
Check C15_token_spans_on_character_boundaries : forall gend cs ts t,
  Forall ch_wf cs -> tokenize gend cs = Ok ts -> In t ts ->
  boundary cs (tstart t) /\ boundary cs (tend t) /\ tstart t <= tend t /\ tend t <= bytes cs.
Print Assumptions C15_token_spans_on_character_boundaries.


(* for the ranges diagnostics carry - from the start of one token to the end of another - at least one line is shown and
   on every shown line the marked section is a well-formed interval (so the slice the implementation takes cannot be
   reversed); `class_ok` is the contract that no alphabetic / alphanumeric character is also white space (a theorem for
   ASCII, a stated contract on the Unicode classification beyond) *)
Theorem C15_token_ranges_give_wellformed_sections : forall gend cs ts t1 t2,
  Forall ch_wf cs -> Forall class_ok cs -> tokenize gend cs = Ok ts ->
  In t1 ts -> In t2 ts -> tstart t1 <= tstart t2 ->
  listing cs (tstart t1) (tend t2) <> [] /\
  forall s, In s (listing cs (tstart t1) (tend t2)) -> sec_start s <= sec_end s.
Proof. exact listing_sections_ordered_for_token_ranges. Qed.
Check C15_token_ranges_give_wellformed_sections : forall gend cs ts t1 t2,
  Forall ch_wf cs -> Forall class_ok cs -> tokenize gend cs = Ok ts ->
  In t1 ts -> In t2 ts -> tstart t1 <= tstart t2 ->
  listing cs (tstart t1) (tend t2) <> [] /\
  forall s, In s (listing cs (tstart t1) (tend t2)) -> sec_start s <= sec_end s.
Print Assumptions C15_token_ranges_give_wellformed_sections.

