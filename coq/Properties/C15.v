(* C15  Diagnostics point at the offending source text.
   Proved for the listing model (mirror of src/error.rs `listing`): the lines shown are exactly the
   lines that intersect the reported range, with their 1-based numbers, and every marked section lies
   inside its (trimmed) line. The rendering and the overline column (characters, not bytes) are
   compared with the implementation; that node ranges are token spans whose text re-parses to the
   node, and that scoping / typing / lexing diagnostics mark exactly an identifier / a subexpression /
   the symbol, is decided on the implementation with the extracted re-parser. *)
From Coq Require Import List ZArith NArith Bool Arith.
Import ListNotations.
Require Import Gram.Model.Token Gram.Model.Tokenizer Gram.Model.Listing Gram.Spec.ListingSpec Gram.Proofs.ListingProofs.

Theorem C15_listing_lines_exact : forall cs rs re, map lineno (listing cs rs re) = spec_linenos cs rs re.
Proof. exact listing_lines_exact. Qed.
Check C15_listing_lines_exact : forall cs rs re, map lineno (listing cs rs re) = spec_linenos cs rs re.
Print Assumptions C15_listing_lines_exact.

Theorem C15_section_in_line : forall lines k start rs re s,
  In s (listing_lines lines k start rs re) -> sec_end s <= bytes (ltext s) /\ sec_start s <= bytes (ltext s).
Proof. exact listing_section_in_line. Qed.
Check C15_section_in_line : forall lines k start rs re s,
  In s (listing_lines lines k start rs re) -> sec_end s <= bytes (ltext s) /\ sec_start s <= bytes (ltext s).
Print Assumptions C15_section_in_line.

(* non-vacuity: "ab\n  cd\nef" with the range of `b .. c`: lines 1 and 2, marks `b` and `c` *)
Definition ex15 := map asc [97;98;10;32;32;99;100;10;101;102]%N.
Theorem C15_example :
  map (fun s => (lineno s, sec_start s, sec_end s)) (listing ex15 1 6) = [(1, 1, 2); (2, 2, 3)] /\
  spec_linenos ex15 1 6 = [1; 2].
Proof. vm_compute. split; reflexivity. Qed.
Check C15_example : _ /\ spec_linenos ex15 1 6 = [1; 2].
Print Assumptions C15_example.
