(* C15  Diagnostics point at the offending source text.
   Proved for the listing model (mirror of src/error.rs `listing`): the lines shown are exactly the
   lines that intersect the reported range, with their 1-based numbers, and every marked section lies
   inside its (trimmed) line. The rendering and the overline column (characters, not bytes) are
   compared with the implementation. Proved for the parser model (Proofs/RangeProofs.v, an invariant of
   every parse call through the skeleton interpreter, the hand-modelled functions and the memo table):
   every node of an accepted parse carries the byte range from the first byte of its first token to the
   last byte of its last token, the children's token intervals tile the parent's as the production
   prescribes (parentheses widen only the parenthesised node), and the root spans the whole input - so
   the range bookkeeping spread over the parse functions cannot drift. That the implementation's ranges
   are the model's, that their text re-parses to the node, and that scoping / typing / lexing diagnostics
   mark exactly an identifier / a subexpression / the symbol, is decided on the implementation with the
   extracted re-parser. *)
From Coq Require Import List ZArith NArith Bool Arith.
Import ListNotations.
Require Import Gram.Model.Token Gram.Model.Tokenizer Gram.Model.Listing Gram.Spec.ListingSpec Gram.Proofs.ListingProofs Gram.Model.Grammar Gram.Model.Parser Gram.Model.ParserPost Gram.Proofs.RangeProofs.

Theorem C15_listing_lines_exact : forall cs rs re, map lineno (listing cs rs re) = spec_linenos cs rs re.
Proof. exact listing_lines_exact. Qed.
Check C15_listing_lines_exact : forall cs rs re, map lineno (listing cs rs re) = spec_linenos cs rs re.
Print Assumptions C15_listing_lines_exact.

Theorem C15_section_in_line : forall lines k start rs re s,
  In s (listing_lines lines k start rs re) -> sec_end s <= bytes (ltext s) /\ sec_start s <= bytes (ltext s).
Proof. exact listing_section_in_line. Qed.
Check C15_section_in_line : forall lines k start rs re s,
  In s (listing_lines lines k start rs re) -> sec_end s <= bytes (ltext s) /\ sec_start s <= bytes (ltext s).
Print Assumptions C15_section_in_line.

(* non-vacuity: "ab\n  cd\nef" with the range of `b .. c`: lines 1 and 2, marks `b` and `c` *)
Definition ex15 := map asc [97;98;10;32;32;99;100;10;101;102]%N.
Theorem C15_example :
  map (fun s => (lineno s, sec_start s, sec_end s)) (listing ex15 1 6) = [(1, 1, 2); (2, 2, 3)] /\
  spec_linenos ex15 1 6 = [1; 2].
Proof. vm_compute. split; reflexivity. Qed.
Check C15_example : _ /\ spec_linenos ex15 1 6 = [1; 2].
Print Assumptions C15_example.

(* node ranges of the parser model: token spans, tiled by the children as the production prescribes *)
Theorem C15_tree_layout : forall toks memo t, fst (fst (parse_stage1 toks memo)) = S1Tree t -> layout toks t 0 (length toks).
Proof. exact parsed_tree_layout. Qed.
Check C15_tree_layout : forall toks memo t, fst (fst (parse_stage1 toks memo)) = S1Tree t -> layout toks t 0 (length toks).
Print Assumptions C15_tree_layout.

Theorem C15_every_node_spans_tokens : forall toks memo t, fst (fst (parse_stage1 toks memo)) = S1Tree t ->
  every_node (node_spanned toks 0 (length toks)) t.
Proof. exact parsed_tree_every_node_spans_tokens. Qed.
Check C15_every_node_spans_tokens : forall toks memo t, fst (fst (parse_stage1 toks memo)) = S1Tree t ->
  every_node (node_spanned toks 0 (length toks)) t.
Print Assumptions C15_every_node_spans_tokens.

Theorem C15_root_spans_input : forall toks memo t, fst (fst (parse_stage1 toks memo)) = S1Tree t -> toks <> [] ->
  exists first last, nth_error toks 0 = Some first /\ nth_error toks (length toks - 1) = Some last /\
                     prs (info t) = ps first /\ pre (info t) = pe last.
Proof. exact parsed_tree_spans_input. Qed.
Check C15_root_spans_input : forall toks memo t, fst (fst (parse_stage1 toks memo)) = S1Tree t -> toks <> [] ->
  exists first last, nth_error toks 0 = Some first /\ nth_error toks (length toks - 1) = Some last /\
                     prs (info t) = ps first /\ pre (info t) = pe last.
Print Assumptions C15_root_spans_input.
