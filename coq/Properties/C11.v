(* C11  Substitution and index shifting are capture-avoiding.
   Only statements: each theorem is closed by `exact <lemma>`; the `Check` pins the statement. *)
From Coq Require Import List ZArith Bool.
Import ListNotations.
Require Import Gram.Model.Term Gram.Model.DeBruijn Gram.Proofs.DeBruijnLaws.

Theorem C11_sshift_zero : forall t c, sshift t c 0 = Some t.
Proof. exact sshift_zero. Qed.
Check C11_sshift_zero : forall t c, sshift t c 0 = Some t.
Print Assumptions C11_sshift_zero.

Theorem C11_ushift_total : forall t c n, sshift t c (Z.of_nat n) = Some (ushift t c n).
Proof. exact ushift_total. Qed.
Check C11_ushift_total : forall t c n, sshift t c (Z.of_nat n) = Some (ushift t c n).
Print Assumptions C11_ushift_total.

Theorem C11_ushift_add : forall t c m n, ushift (ushift t c m) c n = ushift t c (m + n).
Proof. exact ushift_add. Qed.
Check C11_ushift_add : forall t c m n, ushift (ushift t c m) c n = ushift t c (m + n).
Print Assumptions C11_ushift_add.

Theorem C11_sshift_compose : forall t c a b u w,
  sshift t c a = Some u -> sshift u c b = Some w -> sshift t c (a + b) = Some w.
Proof. exact sshift_compose. Qed.
Check C11_sshift_compose : forall t c a b u w,
  sshift t c a = Some u -> sshift u c b = Some w -> sshift t c (a + b) = Some w.
Print Assumptions C11_sshift_compose.

Theorem C11_sshift_down_up : forall t c n, sshift (ushift t c n) c (- Z.of_nat n) = Some t.
Proof. exact sshift_down_up. Qed.
Check C11_sshift_down_up : forall t c n, sshift (ushift t c n) c (- Z.of_nat n) = Some t.
Print Assumptions C11_sshift_down_up.

Theorem C11_sshift_fail_iff : forall t c n, hole_free t = true ->
  (sshift t c (- Z.of_nat n) = None <-> exists v, occurs t c v = true /\ v < n).
Proof. exact sshift_fail_iff. Qed.
Check C11_sshift_fail_iff : forall t c n, hole_free t = true ->
  (sshift t c (- Z.of_nat n) = None <-> exists v, occurs t c v = true /\ v < n).
Print Assumptions C11_sshift_fail_iff.

Theorem C11_open_absent : forall t i s k, hole_free t = true -> occurs t 0 i = false ->
  sshift t i (-1) = Some (open t i s k).
Proof. exact open_absent. Qed.
Check C11_open_absent : forall t i s k, hole_free t = true -> occurs t 0 i = false ->
  sshift t i (-1) = Some (open t i s k).
Print Assumptions C11_open_absent.

Theorem C11_fvl_occurs : forall t c v, In v (fvl t c) <-> occurs t c v = true.
Proof. exact fvl_occurs. Qed.
Check C11_fvl_occurs : forall t c v, In v (fvl t c) <-> occurs t c v = true.
Print Assumptions C11_fvl_occurs.
