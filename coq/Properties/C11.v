(* C11  Substitution and index shifting are capture-avoiding.
   The statement itself - "on hole-free terms, shifting and opening agree with capture-avoiding substitution
   on named terms" - is C11_open_is_named_substitution / C11_shift_is_context_extension below (Spec/Named.v:
   named terms, contexts of names, translation to indices; Proofs/NamedProofs.v), for the whole term language
   with multi-definition groups, at any binder depth, under the variable convention (no name bound inside the
   term is free in the inserted term) that makes textual substitution capture-avoiding. The algebraic laws
   follow. Only statements: each theorem is closed by `exact <lemma>`; the `Check` pins the statement. *)
From Coq Require Import List ZArith Bool.
Import ListNotations.
Require Import Gram.Model.Term Gram.Model.DeBruijn Gram.Proofs.DeBruijnLaws Gram.Spec.Named Gram.Proofs.NamedProofs.

Theorem C11_sshift_zero : forall t c, sshift t c 0 = Some t.
Proof. exact sshift_zero. Qed.
Check C11_sshift_zero : forall t c, sshift t c 0 = Some t.
Print Assumptions C11_sshift_zero.

Theorem C11_ushift_total : forall t c n, sshift t c (Z.of_nat n) = Some (ushift t c n).
Proof. exact ushift_total. Qed.
Check C11_ushift_total : forall t c n, sshift t c (Z.of_nat n) = Some (ushift t c n).
Print Assumptions C11_ushift_total.

Theorem C11_ushift_add : forall t c m n, ushift (ushift t c m) c n = ushift t c (m + n).
Proof. exact ushift_add. Qed.
Check C11_ushift_add : forall t c m n, ushift (ushift t c m) c n = ushift t c (m + n).
Print Assumptions C11_ushift_add.

Theorem C11_sshift_compose : forall t c a b u w,
  sshift t c a = Some u -> sshift u c b = Some w -> sshift t c (a + b) = Some w.
Proof. exact sshift_compose. Qed.
Check C11_sshift_compose : forall t c a b u w,
  sshift t c a = Some u -> sshift u c b = Some w -> sshift t c (a + b) = Some w.
Print Assumptions C11_sshift_compose.

Theorem C11_sshift_down_up : forall t c n, sshift (ushift t c n) c (- Z.of_nat n) = Some t.
Proof. exact sshift_down_up. Qed.
Check C11_sshift_down_up : forall t c n, sshift (ushift t c n) c (- Z.of_nat n) = Some t.
Print Assumptions C11_sshift_down_up.

Theorem C11_sshift_fail_iff : forall t c n, hole_free t = true ->
  (sshift t c (- Z.of_nat n) = None <-> exists v, occurs t c v = true /\ v < n).
Proof. exact sshift_fail_iff. Qed.
Check C11_sshift_fail_iff : forall t c n, hole_free t = true ->
  (sshift t c (- Z.of_nat n) = None <-> exists v, occurs t c v = true /\ v < n).
Print Assumptions C11_sshift_fail_iff.

Theorem C11_open_absent : forall t i s k, hole_free t = true -> occurs t 0 i = false ->
  sshift t i (-1) = Some (open t i s k).
Proof. exact open_absent. Qed.
Check C11_open_absent : forall t i s k, hole_free t = true -> occurs t 0 i = false ->
  sshift t i (-1) = Some (open t i s k).
Print Assumptions C11_open_absent.

Theorem C11_fvl_occurs : forall t c v, In v (fvl t c) <-> occurs t c v = true.
Proof. exact fvl_occurs. Qed.
Check C11_fvl_occurs : forall t c v, In v (fvl t c) <-> occurs t c v = true.
Print Assumptions C11_fvl_occurs.

Theorem C11_open_is_named_substitution : forall x u G t B,
  pos x B = None ->
  (forall y, In y (bnames t) -> nfree y u = false) ->
  (forall y, In y B -> nfree y u = false) ->
  dbt (B ++ G) (nsubst x u t) = open (dbt (B ++ x :: G) t) (length B) (dbt G u) (length B).
Proof. exact open_is_substitution. Qed.
Check C11_open_is_named_substitution : forall x u G t B,
  pos x B = None ->
  (forall y, In y (bnames t) -> nfree y u = false) ->
  (forall y, In y B -> nfree y u = false) ->
  dbt (B ++ G) (nsubst x u t) = open (dbt (B ++ x :: G) t) (length B) (dbt G u) (length B).
Print Assumptions C11_open_is_named_substitution.

Theorem C11_shift_is_context_extension : forall u L B G,
  (forall z, pos z B <> None -> nfree z u = true -> pos z L <> None) ->
  dbt (L ++ B ++ G) u = ushift (dbt (L ++ G) u) (length L) (length B).
Proof. exact shift_is_weakening. Qed.
Check C11_shift_is_context_extension : forall u L B G,
  (forall z, pos z B <> None -> nfree z u = true -> pos z L <> None) ->
  dbt (L ++ B ++ G) u = ushift (dbt (L ++ G) u) (length L) (length B).
Print Assumptions C11_shift_is_context_extension.

Theorem C11_named_terms_are_hole_free : forall t G, hole_free (dbt G t) = true.
Proof. exact dbt_hole_free. Qed.
Check C11_named_terms_are_hole_free : forall t G, hole_free (dbt G t) = true.
Print Assumptions C11_named_terms_are_hole_free.

(* non-vacuity, and what the side condition is for: substituting `y + 1` for x in `z => x + z` (z not free in
   the inserted term) commutes with the translation; with the binder named y instead it would be captured, and
   the theorem's hypothesis fails exactly there *)
Example C11_named_example :
  let u := NBin OSum (NVar 1) (NLit 1) in                       (* y + 1,  y = 1 *)
  let t := NLam false 2 NInt (NBin OSum (NVar 0) (NVar 2)) in   (* z => x + z, x = 0, z = 2 *)
  (forall y, In y (bnames t) -> nfree y u = false) /\
  dbt [1] (nsubst 0 u t) = open (dbt [0; 1] t) 0 (dbt [1] u) 0 /\
  dbt [1] (nsubst 0 u t) = TLam false TInt (TBin OSum (TBin OSum (TVar 1) (TLit 1)) (TVar 0)).
Proof. cbn. split; [intros y [<-|[]]; reflexivity | split; reflexivity]. Qed.
