(* C06  Definitional equality used by the checker agrees with evaluation.
   Proved on the specification level (Spec/Typing.v `conv`, the definitional equality of the typing
   rules) and for the checker's normaliser / conversion test as mirrored by Oracle/Infer.v:
   every evaluation step, hence every value a program evaluates to, is definitionally equal to the
   program; a weak-head normal form is never a group (unify's panic arm is unreachable); the
   conversion test never refutes t = t; a successful test implies definitional equality; the test is
   symmetric (same verdict and same fuel behaviour with the sides swapped); and whenever both sides
   have normal forms the test says `true` exactly when the normal forms (parameter annotations of
   functions erased) are equal. That the mirrors are the implementation's normalize_weak_head / unify
   on hole-free terms is decided by the streams. *)
From Coq Require Import List ZArith Bool Relations.
Import ListNotations.
Require Import Gram.Model.Term Gram.Model.DeBruijn Gram.Model.Eval Gram.Spec.Typing Gram.Oracle.Infer Gram.Proofs.InferSound Gram.Proofs.ConvProofs Gram.Proofs.ConvSym Gram.Model.ModelB Gram.Proofs.ModelBHoleFree.

Theorem C06_step_in_conv : forall t G t', step t = Some t' -> conv G t t'.
Proof. exact step_in_conv. Qed.
Check C06_step_in_conv : forall t G t', step t = Some t' -> conv G t t'.
Print Assumptions C06_step_in_conv.

Theorem C06_evaluate_in_conv : forall f t G v, evaluate f t = Some v -> conv G t v.
Proof. exact evaluate_in_conv. Qed.
Check C06_evaluate_in_conv : forall f t G v, evaluate f t = Some v -> conv G t v.
Print Assumptions C06_evaluate_in_conv.

Theorem C06_whnf_never_let : forall fuel G t u, whnf fuel G t = Some u -> is_let u = false.
Proof. exact whnf_never_let. Qed.
Check C06_whnf_never_let : forall fuel G t u, whnf fuel G t = Some u -> is_let u = false.
Print Assumptions C06_whnf_never_let.

Theorem C06_convb_refl : forall fuel G t, convb fuel G t t <> Some false.
Proof. exact convb_refl. Qed.
Check C06_convb_refl : forall fuel G t, convb fuel G t t <> Some false.
Print Assumptions C06_convb_refl.

Theorem C06_convb_sound : forall fuel G a b, convb fuel G a b = Some true -> conv G a b.
Proof. exact convb_sound. Qed.
Check C06_convb_sound : forall fuel G a b, convb fuel G a b = Some true -> conv G a b.
Print Assumptions C06_convb_sound.

Theorem C06_convb_symmetric : forall fuel G a b, convb fuel G a b = convb fuel G b a.
Proof. exact convb_sym. Qed.
Check C06_convb_symmetric : forall fuel G a b, convb fuel G a b = convb fuel G b a.
Print Assumptions C06_convb_symmetric.

Theorem C06_convb_iff_normal_forms_equal : forall fuel G a b na nb,
  nf fuel G a = Some na -> nf fuel G b = Some nb ->
  exists v, convb fuel G a b = Some v /\ (v = true <-> na = nb).
Proof. exact convb_iff_nf. Qed.
Check C06_convb_iff_normal_forms_equal : forall fuel G a b na nb,
  nf fuel G a = Some na -> nf fuel G b = Some nb ->
  exists v, convb fuel G a b = Some v /\ (v = true <-> na = nb).
Print Assumptions C06_convb_iff_normal_forms_equal.

Theorem C06_normal_form_is_equal_to_term : forall fuel G t n, nf fuel G t = Some n -> conv G t n.
Proof. exact nf_sound. Qed.
Check C06_normal_form_is_equal_to_term : forall fuel G t n, nf fuel G t = Some n -> conv G t n.
Print Assumptions C06_normal_form_is_equal_to_term.

(* non-vacuity: both hypotheses hold together on a concrete pair with beta, delta and arithmetic *)
Example C06_nf_example :
  nf 20 [] (TApp (TLam false TInt (TBin OSum (TVar 0) (TLit 1))) (TLit 2)) = Some (TLit 3) /\
  nf 20 [] (TLet [(TInt, TLit 3)] (TVar 0)) = Some (TLit 3).
Proof. split; vm_compute; reflexivity. Qed.

(* The store-passing mirror of the implementation's normaliser and unifier (Model B: `whnfB`, `unifyB`, the one
   compared with normalize_weak_head / unify case by case) IS the proved mirror on hole-free terms
   (Proofs/ModelBHoleFree.v): it leaves the store alone, `whnfB` computes `whnf` at the same fuel, and
   `unifyB`'s verdict - syntactic shortcut included - is the conversion test's on every fuel at which that is
   defined; hence it is symmetric, sound for definitional equality, and true exactly when the normal forms
   are equal. *)
Theorem C06_whnfB_is_whnf : forall f s D t u s' G,
  same_defs G (G_of_D D) -> hf_dctx D -> hole_free t = true -> whnfB f s D t = Some (u, s') ->
  s' = s /\ hole_free u = true /\ whnf f G t = Some u /\ (forall f' u', whnf f' G t = Some u' -> u' = u).
Proof. exact whnfB_whnf. Qed.
Check C06_whnfB_is_whnf : forall f s D t u s' G,
  same_defs G (G_of_D D) -> hf_dctx D -> hole_free t = true -> whnfB f s D t = Some (u, s') ->
  s' = s /\ hole_free u = true /\ whnf f G t = Some u /\ (forall f' u', whnf f' G t = Some u' -> u' = u).
Print Assumptions C06_whnfB_is_whnf.

Theorem C06_unifyB_is_convb : forall f s D a b r s' G,
  same_defs G (G_of_D D) -> hf_dctx D -> hole_free a = true -> hole_free b = true ->
  unifyB f s D a b = Some (r, s') ->
  s' = s /\ forall f' r', convb f' G a b = Some r' -> r' = r.
Proof. exact unifyB_convb. Qed.
Check C06_unifyB_is_convb : forall f s D a b r s' G,
  same_defs G (G_of_D D) -> hf_dctx D -> hole_free a = true -> hole_free b = true ->
  unifyB f s D a b = Some (r, s') ->
  s' = s /\ forall f' r', convb f' G a b = Some r' -> r' = r.
Print Assumptions C06_unifyB_is_convb.

Theorem C06_unifyB_iff_normal_forms_equal : forall f s D a b r s' G f' na nb,
  same_defs G (G_of_D D) -> hf_dctx D -> hole_free a = true -> hole_free b = true ->
  unifyB f s D a b = Some (r, s') -> nf f' G a = Some na -> nf f' G b = Some nb ->
  (r = true <-> na = nb).
Proof. exact unifyB_iff_nf. Qed.
Check C06_unifyB_iff_normal_forms_equal : forall f s D a b r s' G f' na nb,
  same_defs G (G_of_D D) -> hf_dctx D -> hole_free a = true -> hole_free b = true ->
  unifyB f s D a b = Some (r, s') -> nf f' G a = Some na -> nf f' G b = Some nb ->
  (r = true <-> na = nb).
Print Assumptions C06_unifyB_iff_normal_forms_equal.
