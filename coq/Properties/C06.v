(* C06  Definitional equality used by the checker agrees with evaluation.
   Proved on the specification level (Spec/Typing.v `conv`, the definitional equality of the typing
   rules) and for the checker's normaliser / conversion test as mirrored by Oracle/Infer.v:
   every evaluation step, hence every value a program evaluates to, is definitionally equal to the
   program; a weak-head normal form is never a group (unify's panic arm is unreachable); the
   conversion test never refutes t = t; a successful test implies definitional equality; the test is
   symmetric (same verdict and same fuel behaviour with the sides swapped); and whenever both sides
   have normal forms the test says `true` exactly when the normal forms (parameter annotations of
   functions erased) are equal. That the mirrors are the implementation's normalize_weak_head / unify
   on hole-free terms is decided by the streams. *)
From Coq Require Import List ZArith Bool Relations.
Import ListNotations.
Require Import Gram.Model.Term Gram.Model.DeBruijn Gram.Model.Eval Gram.Spec.Typing Gram.Oracle.Infer Gram.Proofs.InferSound Gram.Proofs.ConvProofs Gram.Proofs.ConvSym Gram.Model.ModelB Gram.Proofs.ModelBHoleFree.
Require Import Gram.Proofs.CtxProofs Gram.Proofs.WeakenProofs Gram.Proofs.ConfluenceEval Gram.Proofs.ConfluenceEvalCtx Gram.Proofs.ConvConsistent.
Require Gram.Proofs.ConvCollapse.

Theorem C06_step_in_conv : forall t G t', step t = Some t' -> conv G t t'.
Proof. exact step_in_conv. Qed.
Check C06_step_in_conv : forall t G t', step t = Some t' -> conv G t t'.
Print Assumptions C06_step_in_conv.

Theorem C06_evaluate_in_conv : forall f t G v, evaluate f t = Some v -> conv G t v.
Proof. exact evaluate_in_conv. Qed.
Check C06_evaluate_in_conv : forall f t G v, evaluate f t = Some v -> conv G t v.
Print Assumptions C06_evaluate_in_conv.

Theorem C06_whnf_never_let : forall fuel G t u, whnf fuel G t = Some u -> is_let u = false.
Proof. exact whnf_never_let. Qed.
Check C06_whnf_never_let : forall fuel G t u, whnf fuel G t = Some u -> is_let u = false.
Print Assumptions C06_whnf_never_let.

Theorem C06_convb_refl : forall fuel G t, convb fuel G t t <> Some false.
Proof. exact convb_refl. Qed.
Check C06_convb_refl : forall fuel G t, convb fuel G t t <> Some false.
Print Assumptions C06_convb_refl.

Theorem C06_convb_sound : forall fuel G a b, convb fuel G a b = Some true -> conv G a b.
Proof. exact convb_sound. Qed.
Check C06_convb_sound : forall fuel G a b, convb fuel G a b = Some true -> conv G a b.
Print Assumptions C06_convb_sound.

Theorem C06_convb_symmetric : forall fuel G a b, convb fuel G a b = convb fuel G b a.
Proof. exact convb_sym. Qed.
Check C06_convb_symmetric : forall fuel G a b, convb fuel G a b = convb fuel G b a.
Print Assumptions C06_convb_symmetric.

Theorem C06_convb_iff_normal_forms_equal : forall fuel G a b na nb,
  nf fuel G a = Some na -> nf fuel G b = Some nb ->
  exists v, convb fuel G a b = Some v /\ (v = true <-> na = nb).
Proof. exact convb_iff_nf. Qed.
Check C06_convb_iff_normal_forms_equal : forall fuel G a b na nb,
  nf fuel G a = Some na -> nf fuel G b = Some nb ->
  exists v, convb fuel G a b = Some v /\ (v = true <-> na = nb).
Print Assumptions C06_convb_iff_normal_forms_equal.

Theorem C06_normal_form_is_equal_to_term : forall fuel G t n, nf fuel G t = Some n -> conv G t n.
Proof. exact nf_sound. Qed.
Check C06_normal_form_is_equal_to_term : forall fuel G t n, nf fuel G t = Some n -> conv G t n.
Print Assumptions C06_normal_form_is_equal_to_term.

(* non-vacuity: both hypotheses hold together on a concrete pair with beta, delta and arithmetic *)
Example C06_nf_example :
  nf 20 [] (TApp (TLam false TInt (TBin OSum (TVar 0) (TLit 1))) (TLit 2)) = Some (TLit 3) /\
  nf 20 [] (TLet [(TInt, TLit 3)] (TVar 0)) = Some (TLit 3).
Proof. split; vm_compute; reflexivity. Qed.

(* The store-passing mirror of the implementation's normaliser and unifier (Model B: `whnfB`, `unifyB`, the one
   compared with normalize_weak_head / unify case by case) IS the proved mirror on hole-free terms
   (Proofs/ModelBHoleFree.v): it leaves the store alone, `whnfB` computes `whnf` at the same fuel, and
   `unifyB`'s verdict - syntactic shortcut included - is the conversion test's on every fuel at which that is
   defined; hence it is symmetric, sound for definitional equality, and true exactly when the normal forms
   are equal. *)
Theorem C06_whnfB_is_whnf : forall f s D t u s' G,
  same_defs G (G_of_D D) -> hf_dctx D -> hole_free t = true -> whnfB f s D t = Some (u, s') ->
  s' = s /\ hole_free u = true /\ whnf f G t = Some u /\ (forall f' u', whnf f' G t = Some u' -> u' = u).
Proof. exact whnfB_whnf. Qed.
Check C06_whnfB_is_whnf : forall f s D t u s' G,
  same_defs G (G_of_D D) -> hf_dctx D -> hole_free t = true -> whnfB f s D t = Some (u, s') ->
  s' = s /\ hole_free u = true /\ whnf f G t = Some u /\ (forall f' u', whnf f' G t = Some u' -> u' = u).
Print Assumptions C06_whnfB_is_whnf.

Theorem C06_unifyB_is_convb : forall f s D a b r s' G,
  same_defs G (G_of_D D) -> hf_dctx D -> hole_free a = true -> hole_free b = true ->
  unifyB f s D a b = Some (r, s') ->
  s' = s /\ forall f' r', convb f' G a b = Some r' -> r' = r.
Proof. exact unifyB_convb. Qed.
Check C06_unifyB_is_convb : forall f s D a b r s' G,
  same_defs G (G_of_D D) -> hf_dctx D -> hole_free a = true -> hole_free b = true ->
  unifyB f s D a b = Some (r, s') ->
  s' = s /\ forall f' r', convb f' G a b = Some r' -> r' = r.
Print Assumptions C06_unifyB_is_convb.

Theorem C06_unifyB_iff_normal_forms_equal : forall f s D a b r s' G f' na nb,
  same_defs G (G_of_D D) -> hf_dctx D -> hole_free a = true -> hole_free b = true ->
  unifyB f s D a b = Some (r, s') -> nf f' G a = Some na -> nf f' G b = Some nb ->
  (r = true <-> na = nb).
Proof. exact unifyB_iff_nf. Qed.
Check C06_unifyB_iff_normal_forms_equal : forall f s D a b r s' G f' na nb,
  same_defs G (G_of_D D) -> hf_dctx D -> hole_free a = true -> hole_free b = true ->
  unifyB f s D a b = Some (r, s') -> nf f' G a = Some na -> nf f' G b = Some nb ->
  (r = true <-> na = nb).
Print Assumptions C06_unifyB_iff_normal_forms_equal.

(* COHERENCE WITH EVALUATION, the first sentence of the property, as a theorem (Proofs/ConfluenceEval.v,
   ConfluenceEvalCtx.v): for every hole-free program - groups, recursion, any fuel - if running it yields a literal
   (true, false) then normalising it the way the checker does yields the same literal (true, false); also under any
   well-formed hole-free context with definitions. It rests on confluence (Proofs/Confluence*.v: parallel reduction,
   complete developments, Church-Rosser for the repaired `conv`), which also makes the soundness theorems above
   non-trivial: definitional equality is CONSISTENT - distinct type formers and distinct literals are not
   convertible, function types are injective - and on closed hole-free terms the conversion test DECIDES it. *)
Theorem C06_normalising_agrees_with_running : forall G f f' t w, wf_offsets G -> ctx_hf G -> hole_free t = true -> whnf f' G t = Some w ->
  (forall z, evaluate f t = Some (TLit z) -> w = TLit z) /\
  (evaluate f t = Some TTrue -> w = TTrue) /\ (evaluate f t = Some TFalse -> w = TFalse).
Proof. intros G f f' t w W F Hf Hw. split; [|split]; intros; [eapply whnf_evaluate_lit_ctx | eapply whnf_evaluate_true_ctx | eapply whnf_evaluate_false_ctx]; eauto. Qed.
Check C06_normalising_agrees_with_running : forall G f f' t w, wf_offsets G -> ctx_hf G -> hole_free t = true -> whnf f' G t = Some w ->
  (forall z, evaluate f t = Some (TLit z) -> w = TLit z) /\
  (evaluate f t = Some TTrue -> w = TTrue) /\ (evaluate f t = Some TFalse -> w = TFalse).
Print Assumptions C06_normalising_agrees_with_running.

Theorem C06_definitional_equality_is_consistent : forall G, wf_offsets G -> ctx_hf G ->
  ~ conv G TInt TBool /\ ~ conv G TType TInt /\ ~ conv G TTrue TFalse /\ (forall x y, conv G (TLit x) (TLit y) -> x = y) /\
  (forall im A B, ~ conv G TInt (TPi im A B)).
Proof. intros G W F. repeat split; [apply conv_int_bool | apply conv_type_int | apply conv_true_false | intros x y; apply conv_lit_inj | intros im A B; apply conv_catom_pi]; auto. Qed.
Check C06_definitional_equality_is_consistent : forall G, wf_offsets G -> ctx_hf G ->
  ~ conv G TInt TBool /\ ~ conv G TType TInt /\ ~ conv G TTrue TFalse /\ (forall x y, conv G (TLit x) (TLit y) -> x = y) /\
  (forall im A B, ~ conv G TInt (TPi im A B)).
Print Assumptions C06_definitional_equality_is_consistent.

Theorem C06_function_types_injective : forall G im A B im' A' B', wf_offsets G -> ctx_hf G ->
  hole_free A = true -> hole_free B = true -> hole_free A' = true -> hole_free B' = true ->
  conv G (TPi im A B) (TPi im' A' B') -> im = im' /\ conv G A A' /\ conv (bind G A) B B'.
Proof. exact conv_pi_inj. Qed.
Check C06_function_types_injective : forall G im A B im' A' B', wf_offsets G -> ctx_hf G ->
  hole_free A = true -> hole_free B = true -> hole_free A' = true -> hole_free B' = true ->
  conv G (TPi im A B) (TPi im' A' B') -> im = im' /\ conv G A A' /\ conv (bind G A) B B'.
Print Assumptions C06_function_types_injective.

Theorem C06_conversion_test_decides : forall f a b r, hole_free a = true -> hole_free b = true ->
  convb f [] a b = Some r -> (r = true <-> conv [] a b).
Proof. exact convb_decides_conv. Qed.
Check C06_conversion_test_decides : forall f a b r, hole_free a = true -> hole_free b = true ->
  convb f [] a b = Some r -> (r = true <-> conv [] a b).
Print Assumptions C06_conversion_test_decides.

(* regression for the defect of the specification found on the way: with the group rule as first written
   (definitions visible while two groups are compared) every two terms were convertible *)
Theorem C06_old_group_rule_was_total : forall G a b, ConvCollapse.conv_old G a b.
Proof. exact ConvCollapse.conv_old_total. Qed.
Check C06_old_group_rule_was_total : forall G a b, ConvCollapse.conv_old G a b.
Print Assumptions C06_old_group_rule_was_total.

