(* C05  Fully annotated well-typed programs are accepted; elaboration only fills holes (well-typedness is certified by the verified checker before the implementation is asked).
   The "independent checker for explicitly typed terms" is Oracle/Infer.v; it is proved sound against
   the declarative typing rules of Spec/Typing.v (no confluence or normalisation needed). Every
   program the implementation accepts is handed, elaborated term and reported type, to the extracted
   checker: acceptance by it is a kernel-checked certificate that the instance is well typed. The
   universal statement about the implementation's own checker (C05_statement) is not claimed: with
   type : type, recursive groups and holes it needs a metatheory this development does not have, and
   it is refuted for today's code by the recorded finding D9. *)
From Coq Require Import List ZArith Bool Relations.
Import ListNotations.
Require Import Gram.Model.Term Gram.Model.DeBruijn Gram.Model.Eval Gram.Spec.Typing Gram.Oracle.Infer Gram.Proofs.InferSound Gram.Model.ModelB Gram.Proofs.ModelBProofs.
Require Gram.Proofs.PreservationGroups Gram.Proofs.TcCompleteAll.
Require Gram.Proofs.TcSoundHF Gram.Proofs.TcCompleteHF.

Theorem C05_whnf_sound : forall fuel G t u, whnf fuel G t = Some u -> clos_refl_trans term (red G) t u.
Proof. exact whnf_sound. Qed.
Check C05_whnf_sound : forall fuel G t u, whnf fuel G t = Some u -> clos_refl_trans term (red G) t u.
Print Assumptions C05_whnf_sound.

Theorem C05_convb_sound : forall fuel G a b, convb fuel G a b = Some true -> conv G a b.
Proof. exact convb_sound. Qed.
Check C05_convb_sound : forall fuel G a b, convb fuel G a b = Some true -> conv G a b.
Print Assumptions C05_convb_sound.

Theorem C05_infer_sound : forall fuel G t T, infer fuel G t = Some T -> has_type G t T.
Proof. exact infer_sound. Qed.
Check C05_infer_sound : forall fuel G t T, infer fuel G t = Some T -> has_type G t T.
Print Assumptions C05_infer_sound.

(* what a run establishes for one accepted program (e, T): *)
Theorem C05_instance_certificate : forall fuel e T T',
  infer fuel [] e = Some T' -> convb fuel [] T' T = Some true -> has_type [] e T.
Proof. exact instance_certificate. Qed.
Check C05_instance_certificate : forall fuel e T T',
  infer fuel [] e = Some T' -> convb fuel [] T' T = Some true -> has_type [] e T.
Print Assumptions C05_instance_certificate.

(* non-vacuity and a regression: the checker certifies a polymorphic identity and a recursive group,
   and rejects the witness of the repaired defect D6 *)
Theorem C05_examples :
  infer 30 [] (TLet [(TPi false TType (TPi false (TVar 0) (TVar 1)), TLam false TType (TLam false (TVar 0) (TVar 0)))]
                    (TApp (TApp (TVar 0) TInt) (TLit 3))) = Some TInt /\
  infer 40 [] (TLet [(TApp (TLam false TInt TInt) TTrue, TLit 3)] (TVar 0)) = None.
Proof. exact validator_examples. Qed.
Check C05_examples : _ /\ _.
Print Assumptions C05_examples.

(* second sentence of the property, on the store-passing mirror of type_check_rec (Model B, tied to the
   implementation by the MB correspondence stream): the elaborated term IS the source term; everything
   the checker changes lives in the store of cells *)
Theorem C05_elaboration_identity : forall fuel s G D t r, tcB fuel s G D t = Some r -> b_elab r = t.
Proof. exact tcB_elab_identity. Qed.
Check C05_elaboration_identity : forall fuel s G D t r, tcB fuel s G D t = Some r -> b_elab r = t.
Print Assumptions C05_elaboration_identity.

(* COMPLETENESS of the checker model against the verified checker, on fully annotated programs
   (Proofs/TcCompleteHF.v). For hole-free programs whose groups are on the definition spine (group-free programs
   included): whenever the verified checker `infer` accepts, the checker model never reports an error - for any fuel
   on which it answers - and its type is `infer`'s with some reductions done (`hrg`; definitionally equal for
   group-free programs). And it DOES answer, for every large enough fuel, as soon as the codomain of each applied
   function's type has a weak-head normal form (`inferT` = `infer` + that one requirement); without it the two
   checkers really differ: C05_completeness_refuted_without_normalisation is a hole-free well-typed program on which
   the model diverges for every fuel (`w : type = w; ...`; parse()'s definition-order check rejects it first). *)
Theorem C05_no_false_rejection : forall f t T,
  hole_free t = true -> TcSoundHF.spine t = true -> infer f [] t = Some T ->
  forall f' r, tcB f' [] [] [] t = Some r ->
  b_errs r = [] /\ exists T', TcSoundHF.zk (b_st r) (b_ty r) T' /\ TcCompleteHF.hrg [] T T'.
Proof. exact TcCompleteHF.tcB_no_false_rejection_spine. Qed.
Check C05_no_false_rejection : forall f t T,
  hole_free t = true -> TcSoundHF.spine t = true -> infer f [] t = Some T ->
  forall f' r, tcB f' [] [] [] t = Some r ->
  b_errs r = [] /\ exists T', TcSoundHF.zk (b_st r) (b_ty r) T' /\ TcCompleteHF.hrg [] T T'.
Print Assumptions C05_no_false_rejection.

Theorem C05_complete_on_spine_programs : forall f t T,
  hole_free t = true -> TcSoundHF.spine t = true -> TcCompleteHF.inferT f [] t = Some T ->
  exists f0 r, (forall f', f0 <= f' -> tcB f' [] [] [] t = Some r) /\ b_errs r = [] /\
    exists T', TcSoundHF.zk (b_st r) (b_ty r) T' /\ TcCompleteHF.hrg [] T T'.
Proof. exact TcCompleteHF.tcB_complete_hole_free_spine. Qed.
Check C05_complete_on_spine_programs : forall f t T,
  hole_free t = true -> TcSoundHF.spine t = true -> TcCompleteHF.inferT f [] t = Some T ->
  exists f0 r, (forall f', f0 <= f' -> tcB f' [] [] [] t = Some r) /\ b_errs r = [] /\
    exists T', TcSoundHF.zk (b_st r) (b_ty r) T' /\ TcCompleteHF.hrg [] T T'.
Print Assumptions C05_complete_on_spine_programs.

Theorem C05_complete_on_group_free_programs : forall f t T,
  hole_free t = true -> TcSoundHF.no_let t = true -> TcCompleteHF.inferT f [] t = Some T ->
  exists f0 r, (forall f', f0 <= f' -> tcB f' [] [] [] t = Some r) /\ b_errs r = [] /\
    exists T', TcSoundHF.zk (b_st r) (b_ty r) T' /\ TcCompleteHF.hr [] T T' /\ conv [] T' T.
Proof. exact TcCompleteHF.tcB_complete_hole_free_nolet. Qed.
Check C05_complete_on_group_free_programs : forall f t T,
  hole_free t = true -> TcSoundHF.no_let t = true -> TcCompleteHF.inferT f [] t = Some T ->
  exists f0 r, (forall f', f0 <= f' -> tcB f' [] [] [] t = Some r) /\ b_errs r = [] /\
    exists T', TcSoundHF.zk (b_st r) (b_ty r) T' /\ TcCompleteHF.hr [] T T' /\ conv [] T' T.
Print Assumptions C05_complete_on_group_free_programs.

Theorem C05_completeness_refuted_without_normalisation : ltac:(let T := type of TcCompleteHF.tcB_complete_hole_free_refuted in exact T).
Proof. exact TcCompleteHF.tcB_complete_hole_free_refuted. Qed.
Check C05_completeness_refuted_without_normalisation : _ /\ _ /\ _ /\ forall f, tcB f [] [] [] TcCompleteHF.ex_div = None.
Print Assumptions C05_completeness_refuted_without_normalisation.

(* ... and for groups nested ANYWHERE with at most one definition each (`sg`; Proofs/TcCompleteAll.v), with the reported type
   definitionally equal to the verified checker's. The two checkers are incomparable only through non-termination on
   types without a weak-head normal form, never through a wrong verdict (C05_checkers_incomparable: one program on which
   the model never answers, one on which the verified checker never answers, each proved for every fuel). *)
Theorem C05_no_false_rejection_nested_groups : forall f t T,
  hole_free t = true -> PreservationGroups.sg t = true -> infer f [] t = Some T ->
  forall f' r, tcB f' [] [] [] t = Some r ->
  b_errs r = [] /\ exists T', TcSoundHF.zk (b_st r) (b_ty r) T' /\ TcCompleteHF.hr [] T T' /\ conv [] T' T.
Proof. exact TcCompleteAll.tcB_no_false_rejection. Qed.
Check C05_no_false_rejection_nested_groups : forall f t T,
  hole_free t = true -> PreservationGroups.sg t = true -> infer f [] t = Some T ->
  forall f' r, tcB f' [] [] [] t = Some r ->
  b_errs r = [] /\ exists T', TcSoundHF.zk (b_st r) (b_ty r) T' /\ TcCompleteHF.hr [] T T' /\ conv [] T' T.
Print Assumptions C05_no_false_rejection_nested_groups.

Theorem C05_complete_nested_groups : forall f t T,
  hole_free t = true -> PreservationGroups.sg t = true -> TcCompleteHF.inferT f [] t = Some T ->
  exists f0 r, (forall f', f0 <= f' -> tcB f' [] [] [] t = Some r) /\ b_errs r = [] /\
    exists T', TcSoundHF.zk (b_st r) (b_ty r) T' /\ TcCompleteHF.hr [] T T' /\ conv [] T' T.
Proof. exact TcCompleteAll.tcB_complete_hole_free. Qed.
Check C05_complete_nested_groups : forall f t T,
  hole_free t = true -> PreservationGroups.sg t = true -> TcCompleteHF.inferT f [] t = Some T ->
  exists f0 r, (forall f', f0 <= f' -> tcB f' [] [] [] t = Some r) /\ b_errs r = [] /\
    exists T', TcSoundHF.zk (b_st r) (b_ty r) T' /\ TcCompleteHF.hr [] T T' /\ conv [] T' T.
Print Assumptions C05_complete_nested_groups.

Theorem C05_checkers_incomparable : ltac:(let T := type of TcCompleteAll.checkers_incomparable in exact T).
Proof. exact TcCompleteAll.checkers_incomparable. Qed.
Check C05_checkers_incomparable : (_ /\ _ /\ _ /\ forall f, tcB f [] [] [] TcCompleteHF.ex_div = None) /\ (_ /\ _ /\ _ /\ forall f, infer f [] TcCompleteAll.ex_shortcut = None).
Print Assumptions C05_checkers_incomparable.
