(* C13  Output is a deterministic function of the input file.
   In the model every stage is a function of its input by construction; the one iteration over a
   hash container in /repo/src (check_definition's free-variable set; the site list is re-extracted
   from the source on every run and compared with the modelled one) goes through a sort, and the
   theorem below says that the sorted, duplicate-free sequence visited depends only on the SET, not on
   the order or multiplicity in which the container yields its elements. What a Coq model cannot
   exhibit - the per-process hash seed itself - is explored by repeated process launches. *)
From Coq Require Import List Arith Permutation.
Import ListNotations.
Require Import Gram.Model.ParserPost Gram.Proofs.OrderProofs.

Theorem C13_iteration_order_irrelevant : forall l l', (forall v, In v l <-> In v l') -> sort_dedup l = sort_dedup l'.
Proof. exact sort_dedup_set_only. Qed.
Check C13_iteration_order_irrelevant : forall l l', (forall v, In v l <-> In v l') -> sort_dedup l = sort_dedup l'.
Print Assumptions C13_iteration_order_irrelevant.

Theorem C13_permutation_irrelevant : forall l l', Permutation l l' -> sort_dedup l = sort_dedup l'.
Proof. exact sort_dedup_perm. Qed.
Check C13_permutation_irrelevant : forall l l', Permutation l l' -> sort_dedup l = sort_dedup l'.
Print Assumptions C13_permutation_irrelevant.

Theorem C13_example : sort_dedup [3; 1; 3; 0; 1] = [0; 1; 3] /\ sort_dedup [0; 3; 1] = [0; 1; 3].
Proof. vm_compute. split; reflexivity. Qed.
Check C13_example : sort_dedup [3; 1; 3; 0; 1] = [0; 1; 3] /\ sort_dedup [0; 3; 1] = [0; 1; 3].
Print Assumptions C13_example.
