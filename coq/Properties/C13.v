(* C13  Output is a deterministic function of the input file.
   In the model every stage is a function of its input by construction; the one iteration over a
   hash container in /repo/src (check_definition's free-variable set; the site list is re-extracted
   from the source on every run and compared with the modelled one) goes through a sort, and the
   theorem below says that the sorted, duplicate-free sequence visited depends only on the SET, not on
   the order or multiplicity in which the container yields its elements. What a Coq model cannot
   exhibit - the per-process hash seed itself - is explored by repeated process launches. *)
From Coq Require Import List Arith Permutation.
Import ListNotations.
Require Import Gram.Model.Term Gram.Model.ParserPost Gram.Model.OrderErrs Gram.Proofs.OrderProofs Gram.Proofs.OrderErrsProofs.

Theorem C13_iteration_order_irrelevant : forall l l', (forall v, In v l <-> In v l') -> sort_dedup l = sort_dedup l'.
Proof. exact sort_dedup_set_only. Qed.
Check C13_iteration_order_irrelevant : forall l l', (forall v, In v l <-> In v l') -> sort_dedup l = sort_dedup l'.
Print Assumptions C13_iteration_order_irrelevant.

Theorem C13_permutation_irrelevant : forall l l', Permutation l l' -> sort_dedup l = sort_dedup l'.
Proof. exact sort_dedup_perm. Qed.
Check C13_permutation_irrelevant : forall l l', Permutation l l' -> sort_dedup l = sort_dedup l'.
Print Assumptions C13_permutation_irrelevant.

Theorem C13_example : sort_dedup [3; 1; 3; 0; 1] = [0; 1; 3] /\ sort_dedup [0; 3; 1] = [0; 1; 3].
Proof. vm_compute. split; reflexivity. Qed.
Check C13_example : sort_dedup [3; 1; 3; 0; 1] = [0; 1; 3] /\ sort_dedup [0; 3; 1] = [0; 1; 3].
Print Assumptions C13_example.

(* The diagnostics themselves, as a list in the order they are pushed (Model/OrderErrs.v: the walk of
   ParserPost.check_definition with the container's iteration as a parameter and each diagnostic
   identified by the two definitions its message names). With the code's sort, the list depends only on
   the set the container holds, for ANY iteration order with ANY multiplicity; its length is the count
   of the parser model (tied to parser.rs by the correspondence streams); and without the sort two
   iterations of the same set give different output on the program quoted in the property's text, whose
   sorted output [(x,w); (x,z); (x,y)] is what the binary prints. *)

Theorem C13_diagnostics_iteration_irrelevant : forall h1 h2, iteration_of h1 -> iteration_of h2 -> forall ds, group_order_errors (fun l => sort_dedup (h1 l)) ds = group_order_errors (fun l => sort_dedup (h2 l)) ds.
Proof. exact group_errors_iteration_irrelevant. Qed.
Check C13_diagnostics_iteration_irrelevant : forall h1 h2, iteration_of h1 -> iteration_of h2 -> forall ds, group_order_errors (fun l => sort_dedup (h1 l)) ds = group_order_errors (fun l => sort_dedup (h2 l)) ds.
Print Assumptions C13_diagnostics_iteration_irrelevant.

Theorem C13_walk_iteration_irrelevant : forall h1 h2, iteration_of h1 -> iteration_of h2 -> forall fuel defs start cur visited errs, check_definition_e (fun l => sort_dedup (h1 l)) fuel defs start cur visited errs = check_definition_e (fun l => sort_dedup (h2 l)) fuel defs start cur visited errs.
Proof. exact cde_iteration_irrelevant. Qed.
Check C13_walk_iteration_irrelevant : forall h1 h2, iteration_of h1 -> iteration_of h2 -> forall fuel defs start cur visited errs, check_definition_e (fun l => sort_dedup (h1 l)) fuel defs start cur visited errs = check_definition_e (fun l => sort_dedup (h2 l)) fuel defs start cur visited errs.
Print Assumptions C13_walk_iteration_irrelevant.

Theorem C13_diagnostics_length_is_model_count : forall fuel defs start cur, snd (check_definition fuel defs start cur [] 0) = length (snd (check_definition_e sort_dedup fuel defs start cur [] [])).
Proof. exact cde_length_is_model_count. Qed.
Check C13_diagnostics_length_is_model_count : forall fuel defs start cur, snd (check_definition fuel defs start cur [] 0) = length (snd (check_definition_e sort_dedup fuel defs start cur [] [])).
Print Assumptions C13_diagnostics_length_is_model_count.

Theorem C13_sort_is_necessary : iteration_of (fun l => l) /\ iteration_of (@rev nat) /\ group_order_errors (fun l => l) c13_defs <> group_order_errors (@rev nat) c13_defs /\ group_order_errors (fun l => sort_dedup l) c13_defs = group_order_errors (fun l => sort_dedup (rev l)) c13_defs /\ group_order_errors (fun l => sort_dedup l) c13_defs = [(0, 3); (0, 2); (0, 1)].
Proof. exact unsorted_iteration_matters. Qed.
Check C13_sort_is_necessary : iteration_of (fun l => l) /\ iteration_of (@rev nat) /\ group_order_errors (fun l => l) c13_defs <> group_order_errors (@rev nat) c13_defs /\ group_order_errors (fun l => sort_dedup l) c13_defs = group_order_errors (fun l => sort_dedup (rev l)) c13_defs /\ group_order_errors (fun l => sort_dedup l) c13_defs = [(0, 3); (0, 2); (0, 1)].
Print Assumptions C13_sort_is_necessary.
