(* C04  A program's value inhabits the type reported for the program (the same verified checker, applied to the value).
   The "independent checker for explicitly typed terms" is Oracle/Infer.v; it is proved sound against
   the declarative typing rules of Spec/Typing.v (no confluence or normalisation needed). Every
   program the implementation accepts is handed, elaborated term and reported type, to the extracted
   checker: acceptance by it is a kernel-checked certificate that the instance is well typed. The
   universal statement about the implementation's own checker (C04_statement) is not claimed: with
   type : type, recursive groups and holes it needs a metatheory this development does not have, and
   it is refuted for today's code by the recorded finding D9. *)
From Coq Require Import List ZArith Bool Relations.
Import ListNotations.
Require Import Gram.Model.Term Gram.Model.DeBruijn Gram.Model.Eval Gram.Spec.Typing Gram.Oracle.Infer Gram.Proofs.InferSound.
Require Import Gram.Model.ModelB Gram.Proofs.CtxProofs Gram.Proofs.WeakenProofs Gram.Proofs.ConfluenceTyping Gram.Proofs.ConvConsistent Gram.Proofs.SafetyHF.
Require Gram.Proofs.ConfluenceEval Gram.Proofs.TcSoundHF.
Require Import Gram.Proofs.PreservationGroups Gram.Proofs.SafetyGroups.
Require Gram.Proofs.PGTyping Gram.Proofs.PGPres Gram.Proofs.PGCounter Gram.Proofs.PGSimple.
Require Gram.Proofs.AcyclicProofs Gram.Proofs.UnifyConsistent Gram.Proofs.TcSoundHoles Gram.Proofs.TcHolesOk Gram.Proofs.SafetyHolesGroups.

Theorem C04_whnf_sound : forall fuel G t u, whnf fuel G t = Some u -> clos_refl_trans term (red G) t u.
Proof. exact whnf_sound. Qed.
Check C04_whnf_sound : forall fuel G t u, whnf fuel G t = Some u -> clos_refl_trans term (red G) t u.
Print Assumptions C04_whnf_sound.

Theorem C04_convb_sound : forall fuel G a b, convb fuel G a b = Some true -> conv G a b.
Proof. exact convb_sound. Qed.
Check C04_convb_sound : forall fuel G a b, convb fuel G a b = Some true -> conv G a b.
Print Assumptions C04_convb_sound.

Theorem C04_infer_sound : forall fuel G t T, infer fuel G t = Some T -> has_type G t T.
Proof. exact infer_sound. Qed.
Check C04_infer_sound : forall fuel G t T, infer fuel G t = Some T -> has_type G t T.
Print Assumptions C04_infer_sound.

(* what a run establishes for one accepted program (e, T): *)
Theorem C04_instance_certificate : forall fuel e T T',
  infer fuel [] e = Some T' -> convb fuel [] T' T = Some true -> has_type [] e T.
Proof. exact instance_certificate. Qed.
Check C04_instance_certificate : forall fuel e T T',
  infer fuel [] e = Some T' -> convb fuel [] T' T = Some true -> has_type [] e T.
Print Assumptions C04_instance_certificate.

(* non-vacuity and a regression: the checker certifies a polymorphic identity and a recursive group,
   and rejects the witness of the repaired defect D6 *)
Theorem C04_examples :
  infer 30 [] (TLet [(TPi false TType (TPi false (TVar 0) (TVar 1)), TLam false TType (TLam false (TVar 0) (TVar 0)))]
                    (TApp (TApp (TVar 0) TInt) (TLit 3))) = Some TInt /\
  infer 40 [] (TLet [(TApp (TLam false TInt TInt) TTrue, TLit 3)] (TVar 0)) = None.
Proof. exact validator_examples. Qed.
Check C04_examples : _ /\ _.
Print Assumptions C04_examples.

(* Preservation, canonical forms and type safety ARE theorems on hole-free group-free programs (Proofs/ConvConsistent.v,
   resting on confluence of the repaired definitional equality): a step keeps the type; a value whose type is
   convertible to int / bool / a function type is a literal / true or false / a function; and what the checker model
   accepts at int yields an integer literal (or stops on a division by zero). *)
Theorem C04_preservation : forall L t T t', Forall (fun A => hole_free A = true) L ->
  hole_free t = true -> ConfluenceEval.no_let t = true -> hole_free T = true ->
  has_type (binds L) t T -> step t = Some t' -> has_type (binds L) t' T.
Proof. exact preservation_has_type. Qed.
Check C04_preservation : forall L t T t', Forall (fun A => hole_free A = true) L ->
  hole_free t = true -> ConfluenceEval.no_let t = true -> hole_free T = true ->
  has_type (binds L) t T -> step t = Some t' -> has_type (binds L) t' T.
Print Assumptions C04_preservation.

Theorem C04_type_safety : forall f t T v, hole_free t = true -> ConfluenceEval.no_let t = true -> hole_free T = true ->
  has_type [] t T -> evaluate f t = Some v ->
  has_type [] v T /\ (is_value v = true \/ div_stuck v).
Proof. exact type_safety_has_type. Qed.
Check C04_type_safety : forall f t T v, hole_free t = true -> ConfluenceEval.no_let t = true -> hole_free T = true ->
  has_type [] t T -> evaluate f t = Some v ->
  has_type [] v T /\ (is_value v = true \/ div_stuck v).
Print Assumptions C04_type_safety.

Theorem C04_canonical_forms : forall G, wf_offsets G -> ctx_hf G -> forall v T, has_type G v T -> is_value v = true ->
  (conv G T TInt -> exists z, v = TLit z) /\ (conv G T TBool -> v = TTrue \/ v = TFalse) /\
  (forall im A B, conv G T (TPi im A B) -> exists d b, v = TLam im d b).
Proof. intros G W F v T H V. split; [|split]; intros; [eapply canonical_int_conv | eapply canonical_bool_conv | eapply canonical_pi_conv]; eauto. Qed.
Check C04_canonical_forms : forall G, wf_offsets G -> ctx_hf G -> forall v T, has_type G v T -> is_value v = true ->
  (conv G T TInt -> exists z, v = TLit z) /\ (conv G T TBool -> v = TTrue \/ v = TFalse) /\
  (forall im A B, conv G T (TPi im A B) -> exists d b, v = TLam im d b).
Print Assumptions C04_canonical_forms.

Theorem C04_accepted_int_programs_yield_literals : forall f t r g v,
  hole_free t = true -> ConfluenceEval.no_let t = true ->
  tcB f [] [] [] t = Some r -> b_errs r = [] -> TcSoundHF.zk (b_st r) (b_ty r) TInt ->
  evaluate g t = Some v -> (exists z, v = TLit z) \/ div_stuck v.
Proof. exact accepted_int_programs_yield_literals. Qed.
Check C04_accepted_int_programs_yield_literals : forall f t r g v,
  hole_free t = true -> ConfluenceEval.no_let t = true ->
  tcB f [] [] [] t = Some r -> b_errs r = [] -> TcSoundHF.zk (b_st r) (b_ty r) TInt ->
  evaluate g t = Some v -> (exists z, v = TLit z) \/ div_stuck v.
Print Assumptions C04_accepted_int_programs_yield_literals.


(* WITH definition groups (Proofs/PG*.v, PreservationGroups.v, SafetyGroups.v). For programs whose groups have at most one
   definition each (`sg`: recursive functions, computed definitions, nested anywhere, dependent annotations) a step keeps
   the type, and what the checker model accepts evaluates to a value of the reported type and of the shape the property
   names. For groups of ANY size the same holds for the sub-relation `tyH` (annotations and result type do not mention
   the group; sound for has_type), which contains every simply typed program (`checkS`, an executable predicate; the
   mutually recursive even/odd program is covered). For `has_type` itself and two or more mutually recursive
   DEPENDENTLY annotated definitions, STEPWISE subject reduction is FALSE: C04_subject_reduction_fails_with_mutual_groups
   (the evaluator replaces a group variable by an anonymous single-definition fixpoint, with which the variable is not
   convertible; the witnesses diverge, so the property's statement about VALUES is not contradicted). *)
Theorem C04_preservation_with_groups : forall t T t', hole_free t = true -> sg t = true -> hole_free T = true ->
  has_type [] t T -> step t = Some t' -> has_type [] t' T /\ hole_free t' = true /\ sg t' = true.
Proof. exact preservation_groups_sg. Qed.
Check C04_preservation_with_groups : forall t T t', hole_free t = true -> sg t = true -> hole_free T = true ->
  has_type [] t T -> step t = Some t' -> has_type [] t' T /\ hole_free t' = true /\ sg t' = true.
Print Assumptions C04_preservation_with_groups.

Theorem C04_accepted_values_have_the_reported_type : forall f t r g v,
  hole_free t = true -> sg t = true ->
  tcB f [] [] [] t = Some r -> b_errs r = [] ->
  evaluate g t = Some v ->
  exists T, TcSoundHF.zk (b_st r) (b_ty r) T /\ has_type [] v T.
Proof. exact accepted_values_have_the_reported_type. Qed.
Check C04_accepted_values_have_the_reported_type : forall f t r g v,
  hole_free t = true -> sg t = true ->
  tcB f [] [] [] t = Some r -> b_errs r = [] ->
  evaluate g t = Some v ->
  exists T, TcSoundHF.zk (b_st r) (b_ty r) T /\ has_type [] v T.
Print Assumptions C04_accepted_values_have_the_reported_type.

Theorem C04_accepted_values_have_the_reported_shape : forall f t r g v,
  hole_free t = true -> sg t = true ->
  tcB f [] [] [] t = Some r -> b_errs r = [] ->
  evaluate g t = Some v -> is_value v = true ->
  (TcSoundHF.zk (b_st r) (b_ty r) TInt -> exists z, v = TLit z) /\
  (TcSoundHF.zk (b_st r) (b_ty r) TBool -> v = TTrue \/ v = TFalse) /\
  (forall im A B, TcSoundHF.zk (b_st r) (b_ty r) (TPi im A B) -> exists d b, v = TLam im d b) /\
  (TcSoundHF.zk (b_st r) (b_ty r) TType -> is_type_former v = true).
Proof. exact accepted_values_have_the_reported_shape. Qed.
Check C04_accepted_values_have_the_reported_shape : forall f t r g v,
  hole_free t = true -> sg t = true ->
  tcB f [] [] [] t = Some r -> b_errs r = [] ->
  evaluate g t = Some v -> is_value v = true ->
  (TcSoundHF.zk (b_st r) (b_ty r) TInt -> exists z, v = TLit z) /\
  (TcSoundHF.zk (b_st r) (b_ty r) TBool -> v = TTrue \/ v = TFalse) /\
  (forall im A B, TcSoundHF.zk (b_st r) (b_ty r) (TPi im A B) -> exists d b, v = TLam im d b) /\
  (TcSoundHF.zk (b_st r) (b_ty r) TType -> is_type_former v = true).
Print Assumptions C04_accepted_values_have_the_reported_shape.

Theorem C04_groups_of_any_size_simply_typed : forall f t T v, PGSimple.checkS [] t = Some T -> evaluate f t = Some v -> has_type [] t T /\ has_type [] v T.
Proof. exact PGSimple.simple_safe. Qed.
Check C04_groups_of_any_size_simply_typed : forall f t T v, PGSimple.checkS [] t = Some T -> evaluate f t = Some v -> has_type [] t T /\ has_type [] v T.
Print Assumptions C04_groups_of_any_size_simply_typed.

Theorem C04_subject_reduction_fails_with_mutual_groups : exists ds b t' T, hole_free (TLet ds b) = true /\ fvl (TLet ds b) 0 = [] /\ length ds = 2 /\
  forallb (fun p => is_value (snd p)) ds = true /\
  has_type [] (TLet ds b) T /\ step (TLet ds b) = Some t' /\ forall T', ~ has_type [] t' T'.
Proof. exact PGCounter.sr_fails_values. Qed.
Check C04_subject_reduction_fails_with_mutual_groups : exists ds b t' T, hole_free (TLet ds b) = true /\ fvl (TLet ds b) 0 = [] /\ length ds = 2 /\
  forallb (fun p => is_value (snd p)) ds = true /\
  has_type [] (TLet ds b) T /\ step (TLet ds b) = Some t' /\ forall T', ~ has_type [] t' T'.
Print Assumptions C04_subject_reduction_fails_with_mutual_groups.


(* ... and WITH inferred annotations (Proofs/SafetyHolesGroups.v): simply typed programs whose binder / definition annotations are
   omitted, with definition groups of at most one definition each, whenever hooks H1 / H3 are silent while checking: the
   completed program evaluates to values of the reported type and shape. *)
Theorem C04_values_with_inferred_annotations : forall H f s t r v,
  TcHolesOk.simple t = true -> sg t = true ->
  TcHolesOk.J s -> TcSoundHoles.store_okM H s -> AcyclicProofs.acyclic s -> TcSoundHoles.wsM H 0 t ->
  TcSoundHoles.tcN f s [] [] t = Some r -> b_errs r = [] -> TcSoundHoles.base_ty v = true ->
  exists eu Tu,
    TcSoundHF.zk (UnifyConsistent.fill v (b_st r)) t eu /\ TcSoundHF.zk (UnifyConsistent.fill v (b_st r)) (b_ty r) Tu /\
    has_type [] eu Tu /\
    forall g w, evaluate g eu = Some w ->
      has_type [] w Tu /\
      (is_value w = true ->
         (Tu = TInt -> exists z, w = TLit z) /\ (Tu = TBool -> w = TTrue \/ w = TFalse) /\
         (forall im A B, Tu = TPi im A B -> exists d b, w = TLam im d b)).
Proof. exact SafetyHolesGroups.accepted_values_with_inferred_annotations. Qed.
Check C04_values_with_inferred_annotations : forall H f s t r v,
  TcHolesOk.simple t = true -> sg t = true ->
  TcHolesOk.J s -> TcSoundHoles.store_okM H s -> AcyclicProofs.acyclic s -> TcSoundHoles.wsM H 0 t ->
  TcSoundHoles.tcN f s [] [] t = Some r -> b_errs r = [] -> TcSoundHoles.base_ty v = true ->
  exists eu Tu,
    TcSoundHF.zk (UnifyConsistent.fill v (b_st r)) t eu /\ TcSoundHF.zk (UnifyConsistent.fill v (b_st r)) (b_ty r) Tu /\
    has_type [] eu Tu /\
    forall g w, evaluate g eu = Some w ->
      has_type [] w Tu /\
      (is_value w = true ->
         (Tu = TInt -> exists z, w = TLit z) /\ (Tu = TBool -> w = TTrue \/ w = TFalse) /\
         (forall im A B, Tu = TPi im A B -> exists d b, w = TLam im d b)).
Print Assumptions C04_values_with_inferred_annotations.

