(* C04  A program's value inhabits the type reported for the program (the same verified checker, applied to the value).
   The "independent checker for explicitly typed terms" is Oracle/Infer.v; it is proved sound against
   the declarative typing rules of Spec/Typing.v (no confluence or normalisation needed). Every
   program the implementation accepts is handed, elaborated term and reported type, to the extracted
   checker: acceptance by it is a kernel-checked certificate that the instance is well typed. The
   universal statement about the implementation's own checker (C04_statement) is not claimed: with
   type : type, recursive groups and holes it needs a metatheory this development does not have, and
   it is refuted for today's code by the recorded finding D9. *)
From Coq Require Import List ZArith Bool Relations.
Import ListNotations.
Require Import Gram.Model.Term Gram.Model.DeBruijn Gram.Model.Eval Gram.Spec.Typing Gram.Oracle.Infer Gram.Proofs.InferSound.
Require Import Gram.Model.ModelB Gram.Proofs.CtxProofs Gram.Proofs.WeakenProofs Gram.Proofs.ConfluenceTyping Gram.Proofs.ConvConsistent Gram.Proofs.SafetyHF.
Require Gram.Proofs.ConfluenceEval Gram.Proofs.TcSoundHF.

Theorem C04_whnf_sound : forall fuel G t u, whnf fuel G t = Some u -> clos_refl_trans term (red G) t u.
Proof. exact whnf_sound. Qed.
Check C04_whnf_sound : forall fuel G t u, whnf fuel G t = Some u -> clos_refl_trans term (red G) t u.
Print Assumptions C04_whnf_sound.

Theorem C04_convb_sound : forall fuel G a b, convb fuel G a b = Some true -> conv G a b.
Proof. exact convb_sound. Qed.
Check C04_convb_sound : forall fuel G a b, convb fuel G a b = Some true -> conv G a b.
Print Assumptions C04_convb_sound.

Theorem C04_infer_sound : forall fuel G t T, infer fuel G t = Some T -> has_type G t T.
Proof. exact infer_sound. Qed.
Check C04_infer_sound : forall fuel G t T, infer fuel G t = Some T -> has_type G t T.
Print Assumptions C04_infer_sound.

(* what a run establishes for one accepted program (e, T): *)
Theorem C04_instance_certificate : forall fuel e T T',
  infer fuel [] e = Some T' -> convb fuel [] T' T = Some true -> has_type [] e T.
Proof. exact instance_certificate. Qed.
Check C04_instance_certificate : forall fuel e T T',
  infer fuel [] e = Some T' -> convb fuel [] T' T = Some true -> has_type [] e T.
Print Assumptions C04_instance_certificate.

(* non-vacuity and a regression: the checker certifies a polymorphic identity and a recursive group,
   and rejects the witness of the repaired defect D6 *)
Theorem C04_examples :
  infer 30 [] (TLet [(TPi false TType (TPi false (TVar 0) (TVar 1)), TLam false TType (TLam false (TVar 0) (TVar 0)))]
                    (TApp (TApp (TVar 0) TInt) (TLit 3))) = Some TInt /\
  infer 40 [] (TLet [(TApp (TLam false TInt TInt) TTrue, TLit 3)] (TVar 0)) = None.
Proof. exact validator_examples. Qed.
Check C04_examples : _ /\ _.
Print Assumptions C04_examples.

(* Preservation, canonical forms and type safety ARE theorems on hole-free group-free programs (Proofs/ConvConsistent.v,
   resting on confluence of the repaired definitional equality): a step keeps the type; a value whose type is
   convertible to int / bool / a function type is a literal / true or false / a function; and what the checker model
   accepts at int yields an integer literal (or stops on a division by zero). *)
Theorem C04_preservation : forall L t T t', Forall (fun A => hole_free A = true) L ->
  hole_free t = true -> ConfluenceEval.no_let t = true -> hole_free T = true ->
  has_type (binds L) t T -> step t = Some t' -> has_type (binds L) t' T.
Proof. exact preservation_has_type. Qed.
Check C04_preservation : forall L t T t', Forall (fun A => hole_free A = true) L ->
  hole_free t = true -> ConfluenceEval.no_let t = true -> hole_free T = true ->
  has_type (binds L) t T -> step t = Some t' -> has_type (binds L) t' T.
Print Assumptions C04_preservation.

Theorem C04_type_safety : forall f t T v, hole_free t = true -> ConfluenceEval.no_let t = true -> hole_free T = true ->
  has_type [] t T -> evaluate f t = Some v ->
  has_type [] v T /\ (is_value v = true \/ div_stuck v).
Proof. exact type_safety_has_type. Qed.
Check C04_type_safety : forall f t T v, hole_free t = true -> ConfluenceEval.no_let t = true -> hole_free T = true ->
  has_type [] t T -> evaluate f t = Some v ->
  has_type [] v T /\ (is_value v = true \/ div_stuck v).
Print Assumptions C04_type_safety.

Theorem C04_canonical_forms : forall G, wf_offsets G -> ctx_hf G -> forall v T, has_type G v T -> is_value v = true ->
  (conv G T TInt -> exists z, v = TLit z) /\ (conv G T TBool -> v = TTrue \/ v = TFalse) /\
  (forall im A B, conv G T (TPi im A B) -> exists d b, v = TLam im d b).
Proof. intros G W F v T H V. split; [|split]; intros; [eapply canonical_int_conv | eapply canonical_bool_conv | eapply canonical_pi_conv]; eauto. Qed.
Check C04_canonical_forms : forall G, wf_offsets G -> ctx_hf G -> forall v T, has_type G v T -> is_value v = true ->
  (conv G T TInt -> exists z, v = TLit z) /\ (conv G T TBool -> v = TTrue \/ v = TFalse) /\
  (forall im A B, conv G T (TPi im A B) -> exists d b, v = TLam im d b).
Print Assumptions C04_canonical_forms.

Theorem C04_accepted_int_programs_yield_literals : forall f t r g v,
  hole_free t = true -> ConfluenceEval.no_let t = true ->
  tcB f [] [] [] t = Some r -> b_errs r = [] -> TcSoundHF.zk (b_st r) (b_ty r) TInt ->
  evaluate g t = Some v -> (exists z, v = TLit z) \/ div_stuck v.
Proof. exact accepted_int_programs_yield_literals. Qed.
Check C04_accepted_int_programs_yield_literals : forall f t r g v,
  hole_free t = true -> ConfluenceEval.no_let t = true ->
  tcB f [] [] [] t = Some r -> b_errs r = [] -> TcSoundHF.zk (b_st r) (b_ty r) TInt ->
  evaluate g t = Some v -> (exists z, v = TLit z) \/ div_stuck v.
Print Assumptions C04_accepted_int_programs_yield_literals.

