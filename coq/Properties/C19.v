(* C19  Meaning-preserving rewrites of a program change neither acceptance nor result.
   Model A terms carry no names, so every stage after variable resolution is independent of names
   by construction of the model (tied to the code by the correspondence streams). Proved on the
   evaluator model (= the call-by-value semantics, C02): `if true then e else e'` steps to e, the
   immediately applied annotated identity steps to its (value) argument, and an unused value
   definition disappears in two steps, leaving the body untouched (a de Bruijn law: opening the
   variable that a shift has just made fresh undoes the shift). Renaming: the scoping stage is
   invariant under every injective renaming of identifiers that fixes `_` - in particular under
   swapping a bound name with a fresh one - so the resolved (nameless) term, and with it acceptance
   and the value, do not depend on the names chosen (Proofs/AlphaProofs.v, with C08's theorem that
   the resolver mirror computes this specification). Acceptance-side invariance of the other rewrites
   (redundant parentheses, naming a subexpression, reordering independent functions, sequences of
   rewrites) is decided on the implementation directly, for every applicable site of generated
   programs. *)
From Coq Require Import List ZArith Bool.
Import ListNotations.
Require Import Gram.Model.Term Gram.Model.DeBruijn Gram.Model.Eval Gram.Proofs.RewriteProofs.
Require Import Gram.Model.Parser Gram.Model.ParserPost Gram.Spec.ScopeSpec Gram.Proofs.AlphaProofs.
Require Import Gram.Spec.Typing Gram.Oracle.Infer Gram.Proofs.CtxProofs Gram.Proofs.WeakenProofs Gram.Proofs.WeakenInfer Gram.Proofs.RewriteTyping.
Require Gram.Proofs.EvalEnvGroups Gram.Proofs.ReorderDefs Gram.Proofs.PGSimple Gram.Proofs.ReorderTyping Gram.Proofs.ReorderMixed.
Require Gram.Model.Token Gram.Model.Grammar Gram.Proofs.ReassocProofs Gram.Proofs.Unambiguous Gram.Proofs.LayoutParens Gram.Proofs.ParensPrefix.

Theorem C19_if_true : forall e e', step (TIf TTrue e e') = Some e.
Proof. exact if_true_step. Qed.
Check C19_if_true : forall e e', step (TIf TTrue e e') = Some e.
Print Assumptions C19_if_true.

Theorem C19_identity_wrapper : forall im d v, is_value v = true -> step (TApp (TLam im d (TVar 0)) v) = Some v.
Proof. exact identity_wrapper_step. Qed.
Check C19_identity_wrapper : forall im d v, is_value v = true -> step (TApp (TLam im d (TVar 0)) v) = Some v.
Print Assumptions C19_identity_wrapper.

Theorem C19_open_ushift_cancel : forall b i s k, hole_free b = true -> open (ushift b i 1) i s k = b.
Proof. exact open_ushift_cancel. Qed.
Check C19_open_ushift_cancel : forall b i s k, hole_free b = true -> open (ushift b i 1) i s k = b.
Print Assumptions C19_open_ushift_cancel.

Theorem C19_unused_definition : forall ann v b, hole_free b = true -> is_value v = true ->
  step (TLet [(ann, v)] (ushift b 0 1)) = Some (TLet [] b) /\ step (TLet [] b) = Some b.
Proof. exact unused_definition_steps. Qed.
Check C19_unused_definition : forall ann v b, hole_free b = true -> is_value v = true ->
  step (TLet [(ann, v)] (ushift b 0 1)) = Some (TLet [] b) /\ step (TLet [] b) = Some b.
Print Assumptions C19_unused_definition.

Theorem C19_renaming_invariance : forall (rho : name -> name),
  (forall x y, rho x = rho y -> x = y) -> rho placeholder = placeholder ->
  forall t, scope_spec (rn rho t) = scope_spec t.
Proof. exact scope_spec_rename. Qed.
Check C19_renaming_invariance : forall (rho : name -> name),
  (forall x y, rho x = rho y -> x = y) -> rho placeholder = placeholder ->
  forall t, scope_spec (rn rho t) = scope_spec t.
Print Assumptions C19_renaming_invariance.

Theorem C19_swap_with_fresh_name : forall a b t, is_placeholder a = false -> is_placeholder b = false ->
  scope_spec (rn (swap_names a b) t) = scope_spec t.
Proof. exact scope_spec_swap. Qed.
Check C19_swap_with_fresh_name : forall a b t, is_placeholder a = false -> is_placeholder b = false ->
  scope_spec (rn (swap_names a b) t) = scope_spec t.
Print Assumptions C19_swap_with_fresh_name.

(* Acceptance AND result, for the verified checker and the evaluator model (Proofs/RewriteTyping.v): the wrappers of
   the property - `if true then e else e'`, the immediately applied annotated identity, an unused definition, naming
   the expression with a definition - applied at the root or in head position, chained and undone in any order
   (`rw`), leave the set of accepted types unchanged and the outcome unchanged: the same value, stuck for the same
   reason, or both diverge. (An unused definition must itself evaluate to a value: `z : int = 1 / 0; 3` is accepted
   and stops on the division - R3_stuck_definition - which is the language's eager semantics of definitions.) *)
Theorem C19_rewrites_preserve_acceptance_and_outcome : forall G a b, wf_offsets G -> ctx_hf' G -> rw G a b ->
  (forall T, accepts G a T <-> accepts G b T) /\ outcome_equiv a b.
Proof. exact rw_sound. Qed.
Check C19_rewrites_preserve_acceptance_and_outcome : forall G a b, wf_offsets G -> ctx_hf' G -> rw G a b ->
  (forall T, accepts G a T <-> accepts G b T) /\ outcome_equiv a b.
Print Assumptions C19_rewrites_preserve_acceptance_and_outcome.

Theorem C19_if_true_outcome : forall e e', outcome_equiv e (TIf TTrue e e').
Proof. exact R1_outcome. Qed.
Check C19_if_true_outcome : forall e e', outcome_equiv e (TIf TTrue e e').
Print Assumptions C19_if_true_outcome.

Theorem C19_identity_wrapper_outcome : forall A e, outcome_equiv e (idw A e).
Proof. exact R2_outcome. Qed.
Check C19_identity_wrapper_outcome : forall A e, outcome_equiv e (idw A e).
Print Assumptions C19_identity_wrapper_outcome.

Theorem C19_unused_definition_outcome : forall A d dv e, hole_free e = true -> evals d dv -> is_value dv = true -> outcome_equiv e (unused A d e).
Proof. exact R3_outcome. Qed.
Check C19_unused_definition_outcome : forall A d dv e, hole_free e = true -> evals d dv -> is_value dv = true -> outcome_equiv e (unused A d e).
Print Assumptions C19_unused_definition_outcome.

Theorem C19_named_expression_outcome : forall A e, hole_free e = true -> outcome_equiv e (named A e).
Proof. exact R4_outcome. Qed.
Check C19_named_expression_outcome : forall A e, hole_free e = true -> outcome_equiv e (named A e).
Print Assumptions C19_named_expression_outcome.


(* Reordering function definitions (Proofs/ReorderDefs.v): exchanging two adjacent VALUE definitions of a group - at the root
   or anywhere inside a closed hole-free program, and any sequence of such exchanges, hence any permutation of a block of
   function definitions - leaves the outcome unchanged: the same integer / boolean (the very same value term), the same
   stuck reason, or both diverge. By a lockstep simulation of the reference interpreter up to a bijection of store cells,
   transferred to the evaluator model through the agreement theorem of C02. Exchanging two COMPUTED definitions, or a
   computed definition with a function it reaches only through another function, does change the outcome
   (two_computed_differ, indep_prog_differ: the latter is the recorded finding D7 seen through this rewrite). *)
Theorem C19_permuting_function_definitions_preserves_the_outcome : forall t t', EvalEnvGroups.okt' t -> ReorderDefs.swaps t t' -> ReorderDefs.obs_equiv t t'.
Proof. exact ReorderDefs.permute_value_definitions_outcome. Qed.
Check C19_permuting_function_definitions_preserves_the_outcome : forall t t', EvalEnvGroups.okt' t -> ReorderDefs.swaps t t' -> ReorderDefs.obs_equiv t t'.
Print Assumptions C19_permuting_function_definitions_preserves_the_outcome.

Theorem C19_swap_adjacent_function_definitions_anywhere : forall t t', EvalEnvGroups.okt' t -> ReorderDefs.swap_in t t' -> ReorderDefs.obs_equiv t t'.
Proof. exact ReorderDefs.swap_value_definitions_anywhere. Qed.
Check C19_swap_adjacent_function_definitions_anywhere : forall t t', EvalEnvGroups.okt' t -> ReorderDefs.swap_in t t' -> ReorderDefs.obs_equiv t t'.
Print Assumptions C19_swap_adjacent_function_definitions_anywhere.


(* ... and ACCEPTANCE (Proofs/ReorderTyping.v): a group and the group with two adjacent definitions exchanged are typable
   together, for the typing rules and for the verified checker at the same fuel; with a result type that does not mention the
   group it is the same type; for simply typed programs (`checkS`) exchanges anywhere and in any sequence keep acceptance and
   type. In general the reported type is the group's projections substituted in the other order, which need NOT be
   convertible with the original (NotConv.exchange_changes_type: mutually dependent computed definitions). *)
Theorem C19_exchanging_definitions_preserves_typability : forall G i ds b, wf_offsets G ->
  ((exists T, has_type G (TLet ds b) T) <-> (exists T, has_type G (ReorderDefs.swap_defs i (TLet ds b)) T)).
Proof. exact ReorderTyping.swap_defs_typable_iff. Qed.
Check C19_exchanging_definitions_preserves_typability : forall G i ds b, wf_offsets G ->
  ((exists T, has_type G (TLet ds b) T) <-> (exists T, has_type G (ReorderDefs.swap_defs i (TLet ds b)) T)).
Print Assumptions C19_exchanging_definitions_preserves_typability.

Theorem C19_exchanging_definitions_preserves_acceptance_by_the_verified_checker : forall f G i ds b, wf_offsets G ->
  ((exists T, infer f G (TLet ds b) = Some T) <-> (exists T, infer f G (ReorderDefs.swap_defs i (TLet ds b)) = Some T)).
Proof. exact ReorderTyping.infer_swap_defs_accepts. Qed.
Check C19_exchanging_definitions_preserves_acceptance_by_the_verified_checker : forall f G i ds b, wf_offsets G ->
  ((exists T, infer f G (TLet ds b) = Some T) <-> (exists T, infer f G (ReorderDefs.swap_defs i (TLet ds b)) = Some T)).
Print Assumptions C19_exchanging_definitions_preserves_acceptance_by_the_verified_checker.

Theorem C19_exchanges_anywhere_simply_typed : forall t t', ReorderTyping.swaps_at t t' -> forall C T, PGSimple.checkS C t = Some T -> PGSimple.checkS C t' = Some T.
Proof. exact ReorderTyping.checkS_swaps_at. Qed.
Check C19_exchanges_anywhere_simply_typed : forall t t', ReorderTyping.swaps_at t t' -> forall C T, PGSimple.checkS C t = Some T -> PGSimple.checkS C t' = Some T.
Print Assumptions C19_exchanges_anywhere_simply_typed.


(* Redundant parentheses (Proofs/LayoutParens.v): parenthesising the tokens of any sub-derivation of an accepted program -
   the whole program, an atom, an already parenthesised group, a left operand, the right-hand side of a definition, a
   function body, a branch, an annotation, a right operand of ANOTHER kind - gives an accepted token list whose raw and
   re-associated trees are the same up to the group flag, names and literals included. The one excluded position is
   necessarily excluded: the unparenthesised tail of a chain of the same kind (`a - b - c` versus `a - (b - c)`).
   `spec_all_flags`: the only group flags the re-association passes ever read are those of chain nodes that are right
   operands of a node of the same chain kind. *)
Theorem C19_parentheses_are_redundant : forall toks memo raw m s d top o len d2 lp rp,
  Parser.parse_stage1 toks memo = (Parser.S1Tree raw, m, s) ->
  Unambiguous.dt_ok d -> Unambiguous.root d = Grammar.Term -> Unambiguous.dyield d = map Parser.pk toks ->
  LayoutParens.PS top o len d d2 -> Parser.pk lp = Token.KLeftParen -> Parser.pk rp = Token.KRightParen ->
  exists raw2 m2 s2, Parser.parse_stage1 (LayoutParens.ins lp rp o len toks) memo = (Parser.S1Tree raw2, m2, s2) /\
    ReassocProofs.strip raw2 = ReassocProofs.strip raw /\ ReassocProofs.strip (ParserPost.reassociate raw2) = ReassocProofs.strip (ParserPost.reassociate raw).
Proof. exact LayoutParens.parens_redundant. Qed.
Check C19_parentheses_are_redundant : forall toks memo raw m s d top o len d2 lp rp,
  Parser.parse_stage1 toks memo = (Parser.S1Tree raw, m, s) ->
  Unambiguous.dt_ok d -> Unambiguous.root d = Grammar.Term -> Unambiguous.dyield d = map Parser.pk toks ->
  LayoutParens.PS top o len d d2 -> Parser.pk lp = Token.KLeftParen -> Parser.pk rp = Token.KRightParen ->
  exists raw2 m2 s2, Parser.parse_stage1 (LayoutParens.ins lp rp o len toks) memo = (Parser.S1Tree raw2, m2, s2) /\
    ReassocProofs.strip raw2 = ReassocProofs.strip raw /\ ReassocProofs.strip (ParserPost.reassociate raw2) = ReassocProofs.strip (ParserPost.reassociate raw).
Print Assumptions C19_parentheses_are_redundant.

Theorem C19_parenthesising_the_whole_program : forall toks memo raw m s lp rp,
  Parser.parse_stage1 toks memo = (Parser.S1Tree raw, m, s) -> Parser.pk lp = Token.KLeftParen -> Parser.pk rp = Token.KRightParen ->
  exists raw2 m2 s2, Parser.parse_stage1 (lp :: toks ++ [rp]) memo = (Parser.S1Tree raw2, m2, s2) /\
    ReassocProofs.strip (ParserPost.reassociate raw2) = ReassocProofs.strip (ParserPost.reassociate raw).
Proof. exact LayoutParens.parens_whole_program. Qed.
Check C19_parenthesising_the_whole_program : forall toks memo raw m s lp rp,
  Parser.parse_stage1 toks memo = (Parser.S1Tree raw, m, s) -> Parser.pk lp = Token.KLeftParen -> Parser.pk rp = Token.KRightParen ->
  exists raw2 m2 s2, Parser.parse_stage1 (lp :: toks ++ [rp]) memo = (Parser.S1Tree raw2, m2, s2) /\
    ReassocProofs.strip (ParserPost.reassociate raw2) = ReassocProofs.strip (ParserPost.reassociate raw).
Print Assumptions C19_parenthesising_the_whole_program.


(* "Reordering INDEPENDENT function definitions", the evaluation side in full (Proofs/ReorderMixed.v): any sequence of adjacent
   exchanges each of which swaps two function definitions, or a function definition with a computed one such that both
   orders pass the corrected definition-order check (C01) - i.e. the computed definition cannot reach the function at all -
   preserves the outcome. The check on the computed-first order is what "independent" has to mean: syntactic
   non-occurrence is not enough (indep_hypothesis_fails: the recorded finding D7 through this rewrite). *)
Theorem C19_reordering_independent_definitions_preserves_the_outcome : forall t t', EvalEnvGroups.okt' t -> ReorderMixed.reorder_steps t t' -> ReorderDefs.obs_equiv t t'.
Proof. exact ReorderMixed.reorder_independent_definitions_outcome. Qed.
Check C19_reordering_independent_definitions_preserves_the_outcome : forall t t', EvalEnvGroups.okt' t -> ReorderMixed.reorder_steps t t' -> ReorderDefs.obs_equiv t t'.
Print Assumptions C19_reordering_independent_definitions_preserves_the_outcome.


(* ... and around a chain PREFIX - `( a - b ) - c`, `( f x y ) z`, `( a * b ) / c`, any proper prefix of a maximal chain of any of
   the three kinds, mixed operators included - where the derivation is re-bracketed rather than flagged
   (Proofs/ParensPrefix.v). Together with C19_parentheses_are_redundant: parentheses around a sub-derivation or around a chain
   prefix, the two kinds of node the final tree has. *)
Theorem C19_parentheses_around_any_node : forall toks memo raw m s d top o len d2 lp rp,
  Parser.parse_stage1 toks memo = (Parser.S1Tree raw, m, s) ->
  Unambiguous.dt_ok d -> Unambiguous.root d = Grammar.Term -> Unambiguous.dyield d = map Parser.pk toks ->
  (LayoutParens.PS top o len d d2 \/ exists k0, ParensPrefix.CXP k0 top o len d d2) ->
  Parser.pk lp = Token.KLeftParen -> Parser.pk rp = Token.KRightParen ->
  exists raw2 m2 s2, Parser.parse_stage1 (LayoutParens.ins lp rp o len toks) memo = (Parser.S1Tree raw2, m2, s2) /\
    ReassocProofs.strip (ParserPost.reassociate raw2) = ReassocProofs.strip (ParserPost.reassociate raw).
Proof. exact ParensPrefix.parens_around_final_node. Qed.
Check C19_parentheses_around_any_node : forall toks memo raw m s d top o len d2 lp rp,
  Parser.parse_stage1 toks memo = (Parser.S1Tree raw, m, s) ->
  Unambiguous.dt_ok d -> Unambiguous.root d = Grammar.Term -> Unambiguous.dyield d = map Parser.pk toks ->
  (LayoutParens.PS top o len d d2 \/ exists k0, ParensPrefix.CXP k0 top o len d d2) ->
  Parser.pk lp = Token.KLeftParen -> Parser.pk rp = Token.KRightParen ->
  exists raw2 m2 s2, Parser.parse_stage1 (LayoutParens.ins lp rp o len toks) memo = (Parser.S1Tree raw2, m2, s2) /\
    ReassocProofs.strip (ParserPost.reassociate raw2) = ReassocProofs.strip (ParserPost.reassociate raw).
Print Assumptions C19_parentheses_around_any_node.

