(* C19  Meaning-preserving rewrites of a program change neither acceptance nor result.
   Model A terms carry no names, so every stage after variable resolution is independent of names
   by construction of the model (tied to the code by the correspondence streams). Proved on the
   evaluator model (= the call-by-value semantics, C02): `if true then e else e'` steps to e, the
   immediately applied annotated identity steps to its (value) argument, and an unused value
   definition disappears in two steps, leaving the body untouched (a de Bruijn law: opening the
   variable that a shift has just made fresh undoes the shift). Acceptance-side invariance and the
   remaining rewrites (renaming, redundant parentheses, naming a subexpression, reordering independent
   functions, and sequences of rewrites) are decided on the implementation directly, for every
   applicable site of generated programs. *)
From Coq Require Import List ZArith Bool.
Import ListNotations.
Require Import Gram.Model.Term Gram.Model.DeBruijn Gram.Model.Eval Gram.Proofs.RewriteProofs.

Theorem C19_if_true : forall e e', step (TIf TTrue e e') = Some e.
Proof. exact if_true_step. Qed.
Check C19_if_true : forall e e', step (TIf TTrue e e') = Some e.
Print Assumptions C19_if_true.

Theorem C19_identity_wrapper : forall im d v, is_value v = true -> step (TApp (TLam im d (TVar 0)) v) = Some v.
Proof. exact identity_wrapper_step. Qed.
Check C19_identity_wrapper : forall im d v, is_value v = true -> step (TApp (TLam im d (TVar 0)) v) = Some v.
Print Assumptions C19_identity_wrapper.

Theorem C19_open_ushift_cancel : forall b i s k, hole_free b = true -> open (ushift b i 1) i s k = b.
Proof. exact open_ushift_cancel. Qed.
Check C19_open_ushift_cancel : forall b i s k, hole_free b = true -> open (ushift b i 1) i s k = b.
Print Assumptions C19_open_ushift_cancel.

Theorem C19_unused_definition : forall ann v b, hole_free b = true -> is_value v = true ->
  step (TLet [(ann, v)] (ushift b 0 1)) = Some (TLet [] b) /\ step (TLet [] b) = Some b.
Proof. exact unused_definition_steps. Qed.
Check C19_unused_definition : forall ann v b, hole_free b = true -> is_value v = true ->
  step (TLet [(ann, v)] (ushift b 0 1)) = Some (TLet [] b) /\ step (TLet [] b) = Some b.
Print Assumptions C19_unused_definition.
