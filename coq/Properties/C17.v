(* C17  Parsing time does not blow up with nesting or length.
   Kernel-checked on every run, for all inputs: every one of the 36 parse functions regenerated from
   parser.rs opens with cache_check! and leaves only through the caching macros (removing one breaks
   this theorem before any input is drawn). The packrat bound that follows - at most one body
   execution per (nonterminal, position), i.e. misses <= 36 * (tokens + 1) - is stated
   (C17_miss_bound_statement) and checked on the implementation's own counters (hook H2) for every
   member of the scaling families and, through the C07 correspondence, the implementation's miss and
   scan counts equal the model's on every explored token sequence; it is not yet a Coq theorem.
   Machine time per step is outside any Gallina model and is measured. *)
From Coq Require Import List ZArith NArith Bool Arith.
Import ListNotations.
Require Import Gram.Model.Token Gram.Model.Grammar Gram.Gen.ParserSkeleton Gram.Model.Parser Gram.Proofs.ParserProofs.

Definition C17_miss_bound_statement : Prop :=
  forall toks, snd (fst (parse_stage1 toks true)) <= 36 * (length toks + 1).

Theorem C17_all_memoised : forallb memoised all_nts = true.
Proof. exact all_memoised. Qed.
Check C17_all_memoised : forallb memoised all_nts = true.
Print Assumptions C17_all_memoised.

(* non-vacuity: twelve nested parentheses stay within the packrat bound, inside Coq *)
Definition nested12 : list ptok :=
  repeat {| pk := KLeftParen; ps := 0; pe := 0; pname := []; pz := 0 |} 12 ++
  [{| pk := KIntegerLiteral; ps := 0; pe := 0; pname := []; pz := 1 |}] ++
  repeat {| pk := KRightParen; ps := 0; pe := 0; pname := []; pz := 0 |} 12.
Theorem C17_nested_example : Nat.leb (snd (fst (parse_stage1 nested12 true))) (36 * (length nested12 + 1)) = true.
Proof. vm_compute. reflexivity. Qed.
Check C17_nested_example : Nat.leb (snd (fst (parse_stage1 nested12 true))) (36 * (length nested12 + 1)) = true.
Print Assumptions C17_nested_example.
