(* C17  Parsing time does not blow up with nesting or length.
   Kernel-checked on every run, for all inputs: every one of the 36 parse functions regenerated from
   parser.rs opens with cache_check! and leaves only through the caching macros; the generated
   skeleton has no left recursion (every call made at the caller's own start position goes to a
   nonterminal of strictly smaller rank); and from these, by induction over the interpreter of the
   skeleton (Proofs/PackratProofs.v): the body of a parse function is executed at most once per
   (nonterminal, position) - misses <= 36 * (tokens + 1) for EVERY token list - and the recursion
   never exceeds its linear fuel. Removing a cache_check!, or introducing a left-recursive call,
   changes a generated file and breaks an obligation before any input is drawn. The implementation's
   own counters (hook H2) are compared with the bound on the scaling families and, through the C07
   correspondence, equal the model's on every explored token sequence. Machine time per step is
   outside any Gallina model and is measured. *)
From Coq Require Import List ZArith NArith Bool Arith.
Import ListNotations.
Require Import Gram.Model.Token Gram.Model.Grammar Gram.Gen.ParserSkeleton Gram.Model.Parser Gram.Model.ParserPost Gram.Proofs.ParserProofs Gram.Proofs.PackratProofs Gram.Proofs.ScanProofs.
Require Import Gram.Model.Term Gram.Model.DeBruijn Gram.Model.ParserPost Gram.Proofs.PostPassBounds.

Theorem C17_miss_bound : forall toks, snd (fst (parse_stage1 toks true)) <= 36 * (length toks + 1).
Proof. exact packrat_miss_bound. Qed.
Check C17_miss_bound : forall toks, snd (fst (parse_stage1 toks true)) <= 36 * (length toks + 1).
Print Assumptions C17_miss_bound.

(* the error-recovery scan (the only loop of the parser outside the memo table) is paid for by misses:
   at most 2*(tokens+1) scan steps per executed body, hence a quadratic bound for every token list *)
Theorem C17_scans_le_misses : forall toks memo,
  snd (parse_stage1 toks memo) <= 2 * (length toks + 1) * snd (fst (parse_stage1 toks memo)).
Proof. exact stage1_scans_le_misses. Qed.
Check C17_scans_le_misses : forall toks memo,
  snd (parse_stage1 toks memo) <= 2 * (length toks + 1) * snd (fst (parse_stage1 toks memo)).
Print Assumptions C17_scans_le_misses.

Theorem C17_scan_bound : forall toks,
  snd (parse_stage1 toks true) <= 2 * (length toks + 1) * (36 * (length toks + 1)).
Proof. exact packrat_scan_bound. Qed.
Check C17_scan_bound : forall toks,
  snd (parse_stage1 toks true) <= 2 * (length toks + 1) * (36 * (length toks + 1)).
Print Assumptions C17_scan_bound.

Theorem C17_no_left_recursion : forallb head_ok all_nts = true.
Proof. exact no_left_recursion. Qed.
Check C17_no_left_recursion : forallb head_ok all_nts = true.
Print Assumptions C17_no_left_recursion.

Theorem C17_parse_within_fuel : forall toks memo context, fst (fst (parse_top toks memo context)) <> POutOfFuel.
Proof. exact parse_top_within_fuel. Qed.
Check C17_parse_within_fuel : forall toks memo context, fst (fst (parse_top toks memo context)) <> POutOfFuel.
Print Assumptions C17_parse_within_fuel.

Theorem C17_all_memoised : forallb memoised all_nts = true.
Proof. exact all_memoised. Qed.
Check C17_all_memoised : forallb memoised all_nts = true.
Print Assumptions C17_all_memoised.

(* non-vacuity: twelve nested parentheses stay within the packrat bound, inside Coq *)
Definition nested12 : list ptok :=
  repeat {| pk := KLeftParen; ps := 0; pe := 0; pname := []; pz := 0 |} 12 ++
  [{| pk := KIntegerLiteral; ps := 0; pe := 0; pname := []; pz := 1 |}] ++
  repeat {| pk := KRightParen; ps := 0; pe := 0; pname := []; pz := 0 |} 12.
Theorem C17_nested_example : Nat.leb (snd (fst (parse_stage1 nested12 true))) (36 * (length nested12 + 1)) = true.
Proof. vm_compute. reflexivity. Qed.
Check C17_nested_example : Nat.leb (snd (fst (parse_stage1 nested12 true))) (36 * (length nested12 + 1)) = true.
Print Assumptions C17_nested_example.

(* The passes that FOLLOW parsing inside parse() (Proofs/PostPassBounds.v), each by an instrumented copy that counts the
   recursive calls and is proved to compute the same result: every re-association pass visits each node exactly once (the cost
   of `reassoc` IS the size of the tree, for any accumulator), name resolution makes at most one call per node, and one walk of
   the definition-order check expands every definition of the group at most once (a definition enters `visited` before it
   is expanded and never leaves), with the fuel the model supplies always sufficient. The two seeded slow-downs of these
   passes (an operand re-associated twice per level; `visited` un-marked on the way back) are exactly violations of these
   bounds; on the implementation they are caught by the timing families. *)
Theorem C17_reassociation_is_linear : forall t, fst (reassociate_c t) = reassociate t /\ snd (reassociate_c t) <= 3 * psize t.
Proof. exact reassociate_cost_bound. Qed.
Check C17_reassociation_is_linear : forall t, fst (reassociate_c t) = reassociate t /\ snd (reassociate_c t) <= 3 * psize t.
Print Assumptions C17_reassociation_is_linear.

Theorem C17_reassociation_pass_visits_each_node_once : forall t k acc, reassoc_c k acc t = (reassoc k acc t, psize t).
Proof. exact reassoc_c_spec. Qed.
Check C17_reassociation_pass_visits_each_node_once : forall t k acc, reassoc_c k acc t = (reassoc k acc t, psize t).
Print Assumptions C17_reassociation_pass_visits_each_node_once.

Theorem C17_resolution_is_linear : forall f t depth c s, fst (resolve_c f t depth c s) = resolve f t depth c s /\ snd (resolve_c f t depth c s) <= psize t.
Proof. intros. split; [apply resolve_c_same | apply resolve_cost_bound]. Qed.
Check C17_resolution_is_linear : forall f t depth c s, fst (resolve_c f t depth c s) = resolve f t depth c s /\ snd (resolve_c f t depth c s) <= psize t.
Print Assumptions C17_resolution_is_linear.

Theorem C17_definition_order_walk_expands_each_definition_once : forall ds start cur errs M,
  Forall (fun p => length (sort_dedup (fvl (snd p) 0)) <= M) ds ->
  let r := check_definition_cost ds start (S (length ds)) cur [] errs in
  res4 r = check_definition (S (length ds)) ds start cur [] errs /\ calls4 r <= 1 + length ds /\ iters4 r <= M * (1 + length ds).
Proof. exact check_definitions_walk_cost. Qed.
Check C17_definition_order_walk_expands_each_definition_once : forall ds start cur errs M,
  Forall (fun p => length (sort_dedup (fvl (snd p) 0)) <= M) ds ->
  let r := check_definition_cost ds start (S (length ds)) cur [] errs in
  res4 r = check_definition (S (length ds)) ds start cur [] errs /\ calls4 r <= 1 + length ds /\ iters4 r <= M * (1 + length ds).
Print Assumptions C17_definition_order_walk_expands_each_definition_once.

Theorem C17_definition_order_fuel_sufficient : forall ds start cur errs extra,
  check_definition (S (length ds) + extra) ds start cur [] errs = check_definition (S (length ds)) ds start cur [] errs.
Proof. exact check_definitions_fuel_sufficient. Qed.
Check C17_definition_order_fuel_sufficient : forall ds start cur errs extra,
  check_definition (S (length ds) + extra) ds start cur [] errs = check_definition (S (length ds)) ds start cur [] errs.
Print Assumptions C17_definition_order_fuel_sufficient.

