(* C07  The parser accepts exactly grammar.y and builds the tree it specifies.
   Kernel-checked on every run, for all inputs at once: the skeleton of the 36 parse functions
   regenerated from src/parser.rs implements exactly the productions regenerated from grammar.y
   (ordered alternatives, consumed tokens, sub-parses), every committed sub-parse is an ordered
   choice, and the tree builder covers every sequence function; and, by induction over the
   interpreter of that skeleton and its memo table (Proofs/SoundProofs.v), EVERY token list that the
   parser model accepts is a sentence of the context-free grammar regenerated from grammar.y
   (C07_accepted_implies_sentence: no input outside the grammar is accepted, error recovery
   included). The converse (every sentence is accepted - ordered choice against a context-free
   grammar), tree shape, left association and names are decided by running the extracted parser
   model, an independent chart recogniser of grammar.y and an independent chain reader against the
   implementation (correspondence). *)
From Coq Require Import List ZArith NArith Bool.
Import ListNotations.
Require Import Gram.Model.Token Gram.Model.Grammar Gram.Gen.ParserSkeleton Gram.Gen.GrammarY Gram.Model.Parser Gram.Proofs.ParserProofs Gram.Proofs.SoundProofs.

Theorem C07_skeleton_matches_grammar : forallb compat_nt all_nts = true.
Proof. exact skeleton_matches_grammar. Qed.
Check C07_skeleton_matches_grammar : forallb compat_nt all_nts = true.
Print Assumptions C07_skeleton_matches_grammar.

Theorem C07_commit_targets_are_choices :
  forallb (fun n => forallb (fun m => match skel m with FChoice _ => true | _ => false end) (commit_targets (skel n))) all_nts = true.
Proof. exact commit_targets_are_choices. Qed.
Check C07_commit_targets_are_choices :
  forallb (fun n => forallb (fun m => match skel m with FChoice _ => true | _ => false end) (commit_targets (skel n))) all_nts = true.
Print Assumptions C07_commit_targets_are_choices.

Theorem C07_build_covers_skeleton : forallb build_arity_ok all_nts = true.
Proof. exact build_covers_skeleton. Qed.
Check C07_build_covers_skeleton : forallb build_arity_ok all_nts = true.
Print Assumptions C07_build_covers_skeleton.

Theorem C07_fast_tables_agree :
  forallb (fun n => match skel n, skel_fast n with
                    | FChoice a, FChoice b => Nat.eqb (length a) (length b) && forallb (fun p => nt_eqb (fst p) (snd p)) (combine a b)
                    | FSeq a, FSeq b => rhs_eqb (map erase a) (map erase b) && Nat.eqb (length a) (length b)
                    | FSpecial, FSpecial => true
                    | _, _ => false end && Bool.eqb (memoised n) (memoised_fast n)) all_nts = true.
Proof. exact fast_tables_agree. Qed.
Check C07_fast_tables_agree : _ = true.
Print Assumptions C07_fast_tables_agree.

Theorem C07_accepted_implies_sentence : forall toks memo t,
  fst (fst (parse_stage1 toks memo)) = S1Tree t -> derives Term (map pk toks).
Proof. exact parse_sound. Qed.
Check C07_accepted_implies_sentence : forall toks memo t,
  fst (fst (parse_stage1 toks memo)) = S1Tree t -> derives Term (map pk toks).
Print Assumptions C07_accepted_implies_sentence.

Theorem C07_skeleton_productions : forallb sound_table all_nts = true.
Proof. exact skeleton_productions. Qed.
Check C07_skeleton_productions : forallb sound_table all_nts = true.
Print Assumptions C07_skeleton_productions.

(* non-vacuity: `x = 1 ; x` is accepted, and therefore derivable *)
Example C07_sentence_example :
  let tk k := {| pk := k; ps := 0; pe := 0; pname := [120%N]; pz := 1 |} in
  exists t, fst (fst (parse_stage1 [tk KIdentifier; tk KEquals; tk KIntegerLiteral; tk KSemicolon; tk KIdentifier] true)) = S1Tree t.
Proof. eexists. vm_compute. reflexivity. Qed.
