(* C07  The parser accepts exactly grammar.y and builds the tree it specifies.
   Kernel-checked on every run, for all inputs at once: the skeleton of the 36 parse functions
   regenerated from src/parser.rs implements exactly the productions regenerated from grammar.y
   (ordered alternatives, consumed tokens, sub-parses), every committed sub-parse is an ordered
   choice, and the tree builder covers every sequence function; and, by induction over the
   interpreter of that skeleton and its memo table (Proofs/SoundProofs.v), EVERY token list that the
   parser model accepts is a sentence of the context-free grammar regenerated from grammar.y
   (C07_accepted_implies_sentence: no input outside the grammar is accepted, error recovery
   included). The converse (every sentence is accepted - ordered choice against a context-free
   grammar), tree shape, left association and names are decided by running the extracted parser
   model, an independent chart recogniser of grammar.y and an independent chain reader against the
   implementation (correspondence). *)
From Coq Require Import List ZArith NArith Bool.
Import ListNotations.
Require Import Gram.Model.Term Gram.Model.ParserPost Gram.Proofs.ReassocProofs.
Require Gram.Proofs.ContentProofs Gram.Proofs.CompleteProofs Gram.Proofs.Unambiguous Gram.Proofs.TreeDerivation.
Require Import Gram.Model.Token Gram.Model.Grammar Gram.Gen.ParserSkeleton Gram.Gen.GrammarY Gram.Model.Parser Gram.Proofs.ParserProofs Gram.Proofs.SoundProofs.

Theorem C07_skeleton_matches_grammar : forallb compat_nt all_nts = true.
Proof. exact skeleton_matches_grammar. Qed.
Check C07_skeleton_matches_grammar : forallb compat_nt all_nts = true.
Print Assumptions C07_skeleton_matches_grammar.

Theorem C07_commit_targets_are_choices :
  forallb (fun n => forallb (fun m => match skel m with FChoice _ => true | _ => false end) (commit_targets (skel n))) all_nts = true.
Proof. exact commit_targets_are_choices. Qed.
Check C07_commit_targets_are_choices :
  forallb (fun n => forallb (fun m => match skel m with FChoice _ => true | _ => false end) (commit_targets (skel n))) all_nts = true.
Print Assumptions C07_commit_targets_are_choices.

Theorem C07_build_covers_skeleton : forallb build_arity_ok all_nts = true.
Proof. exact build_covers_skeleton. Qed.
Check C07_build_covers_skeleton : forallb build_arity_ok all_nts = true.
Print Assumptions C07_build_covers_skeleton.

Theorem C07_fast_tables_agree :
  forallb (fun n => match skel n, skel_fast n with
                    | FChoice a, FChoice b => Nat.eqb (length a) (length b) && forallb (fun p => nt_eqb (fst p) (snd p)) (combine a b)
                    | FSeq a, FSeq b => rhs_eqb (map erase a) (map erase b) && Nat.eqb (length a) (length b)
                    | FSpecial, FSpecial => true
                    | _, _ => false end && Bool.eqb (memoised n) (memoised_fast n)) all_nts = true.
Proof. exact fast_tables_agree. Qed.
Check C07_fast_tables_agree : _ = true.
Print Assumptions C07_fast_tables_agree.

Theorem C07_accepted_implies_sentence : forall toks memo t,
  fst (fst (parse_stage1 toks memo)) = S1Tree t -> derives Term (map pk toks).
Proof. exact parse_sound. Qed.
Check C07_accepted_implies_sentence : forall toks memo t,
  fst (fst (parse_stage1 toks memo)) = S1Tree t -> derives Term (map pk toks).
Print Assumptions C07_accepted_implies_sentence.

Theorem C07_skeleton_productions : forallb sound_table all_nts = true.
Proof. exact skeleton_productions. Qed.
Check C07_skeleton_productions : forallb sound_table all_nts = true.
Print Assumptions C07_skeleton_productions.

(* non-vacuity: `x = 1 ; x` is accepted, and therefore derivable *)
Example C07_sentence_example :
  let tk k := {| pk := k; ps := 0; pe := 0; pname := [120%N]; pz := 1 |} in
  exists t, fst (fst (parse_stage1 [tk KIdentifier; tk KEquals; tk KIntegerLiteral; tk KSemicolon; tk KIdentifier] true)) = S1Tree t.
Proof. eexists. vm_compute. reflexivity. Qed.

(* Tree shape: the re-association passes (mirror of reassociate_applications / _products_and_quotients /
   _sums_and_differences) are a three-line specification - flatten the right spine of unparenthesised nodes of
   one kind from the root, every operand being re-associated on its own, and fold the operands to the LEFT -
   on every tree the parser model hands them (Proofs/ReassocProofs.v). `spec_all` reads nothing of the tree
   but constructors, names, literals, operators and which nodes were parenthesised; parentheses are honoured
   (a parenthesised node is one operand) and the in-order sequence of leaves and operators is unchanged. *)
Theorem C07_reassociate_is_left_fold : forall toks memo t m s,
  parse_stage1 toks memo = (S1Tree t, m, s) ->
  strip (reassociate t) = spec_all (gstrip t) /\ pyield (reassociate t) = pyield t.
Proof. exact parser_reassociate_spec. Qed.
Check C07_reassociate_is_left_fold : forall toks memo t m s,
  parse_stage1 toks memo = (S1Tree t, m, s) ->
  strip (reassociate t) = spec_all (gstrip t) /\ pyield (reassociate t) = pyield t.
Print Assumptions C07_reassociate_is_left_fold.

(* one pass on any tree without error nodes whose left operands are atoms of the pass's kind *)
Theorem C07_reassoc_spec : forall k t, has_error_node t = false -> rspine k (gstrip t) = true ->
  strip (reassoc k None t) = spec k (gstrip t).
Proof. exact reassoc_spec. Qed.
Check C07_reassoc_spec : forall k t, has_error_node t = false -> rspine k (gstrip t) = true ->
  strip (reassoc k None t) = spec k (gstrip t).
Print Assumptions C07_reassoc_spec.

(* every tree of the parser model has that shape, and no error node *)
Theorem C07_parser_tree_wf : forall toks memo t m s, parse_stage1 toks memo = (S1Tree t, m, s) ->
  wf (gstrip t) = true /\ has_error_node t = false.
Proof. intros toks memo t m s H. exact (conj (parser_tree_wf _ _ H) (stage1_tree_noerr _ _ H)). Qed.
Check C07_parser_tree_wf : forall toks memo t m s, parse_stage1 toks memo = (S1Tree t, m, s) ->
  wf (gstrip t) = true /\ has_error_node t = false.
Print Assumptions C07_parser_tree_wf.

(* a - b - c is (a - b) - c, a - (b - c) stays, a / b * c is (a / b) * c, f x y is (f x) y, f (g x) stays:
   for all names and all source ranges *)
Theorem C07_left_associative : forall i1 i2 ia ib ic a b c,
  (pgroup i2 = false ->
   strip (reassoc ChAdd None (PBin i1 ODiff (PVar ia a) (PBin i2 ODiff (PVar ib b) (PVar ic c)))) =
   ABin tt ODiff (ABin tt ODiff (V a) (V b)) (V c)) /\
  (pgroup i2 = true ->
   strip (reassoc ChAdd None (PBin i1 ODiff (PVar ia a) (PBin i2 ODiff (PVar ib b) (PVar ic c)))) =
   ABin tt ODiff (V a) (ABin tt ODiff (V b) (V c))) /\
  (pgroup i2 = false ->
   strip (reassoc ChMul None (PBin i1 OQuot (PVar ia a) (PBin i2 OProd (PVar ib b) (PVar ic c)))) =
   ABin tt OProd (ABin tt OQuot (V a) (V b)) (V c)) /\
  (pgroup i2 = false ->
   strip (reassoc ChApp None (PApp i1 (PVar ia a) (PApp i2 (PVar ib b) (PVar ic c)))) =
   AApp tt (AApp tt (V a) (V b)) (V c)) /\
  (pgroup i2 = true ->
   strip (reassoc ChApp None (PApp i1 (PVar ia a) (PApp i2 (PVar ib b) (PVar ic c)))) =
   AApp tt (V a) (AApp tt (V b) (V c))).
Proof.
  intros. exact (conj (@ex_sub_sub i1 i2 ia ib ic a b c) (conj (@ex_sub_paren i1 i2 ia ib ic a b c)
    (conj (@ex_div_mul i1 i2 ia ib ic a b c) (conj (@ex_app_app i1 i2 ia ib ic a b c) (@ex_app_paren i1 i2 ia ib ic a b c))))).
Qed.
Check C07_left_associative : forall i1 i2 ia ib ic a b c,
  (pgroup i2 = false ->
   strip (reassoc ChAdd None (PBin i1 ODiff (PVar ia a) (PBin i2 ODiff (PVar ib b) (PVar ic c)))) =
   ABin tt ODiff (ABin tt ODiff (V a) (V b)) (V c)) /\
  (pgroup i2 = true ->
   strip (reassoc ChAdd None (PBin i1 ODiff (PVar ia a) (PBin i2 ODiff (PVar ib b) (PVar ic c)))) =
   ABin tt ODiff (V a) (ABin tt ODiff (V b) (V c))) /\
  (pgroup i2 = false ->
   strip (reassoc ChMul None (PBin i1 OQuot (PVar ia a) (PBin i2 OProd (PVar ib b) (PVar ic c)))) =
   ABin tt OProd (ABin tt OQuot (V a) (V b)) (V c)) /\
  (pgroup i2 = false ->
   strip (reassoc ChApp None (PApp i1 (PVar ia a) (PApp i2 (PVar ib b) (PVar ic c)))) =
   AApp tt (AApp tt (V a) (V b)) (V c)) /\
  (pgroup i2 = true ->
   strip (reassoc ChApp None (PApp i1 (PVar ia a) (PApp i2 (PVar ib b) (PVar ic c)))) =
   AApp tt (V a) (AApp tt (V b) (V c))).
Print Assumptions C07_left_associative.

(* from tokens through the parser model and the three passes, inside Coq: a - b + c - d and
   a - b * c / d - f x y *)
Theorem C07_chains_from_tokens : ltac:(let T := type of ReassocExamples.tok_mixed in exact T).
Proof. exact ReassocExamples.tok_mixed. Qed.
Check C07_chains_from_tokens : _ /\ _.
Print Assumptions C07_chains_from_tokens.

(* Every token is consumed, none invented, none reordered (Proofs/ContentProofs.v): the in-order list of content items
   of the tree - identifiers (variable occurrences AND binder names, where they are written), literals, constants,
   operators and unary minus, keywords, arrows, colons, `=`, braces, terminators; everything but the parentheses -
   is exactly the list read off the input tokens, for the raw tree and for the re-associated one. The hypothesis
   excludes only identifier tokens spelled `_` with an EMPTY byte range (no real input has one; with empty ranges
   a written `_` binder cannot be told from the placeholder of `a -> b`: ContentExample.hypothesis_needed). *)
Theorem C07_tree_carries_exactly_the_tokens : forall toks memo t, ContentProofs.underscores_ok toks ->
  fst (fst (parse_stage1 toks memo)) = S1Tree t ->
  ContentProofs.content t = ContentProofs.tok_content toks /\ ContentProofs.content (reassociate t) = ContentProofs.tok_content toks.
Proof. intros toks memo t U H. exact (conj (ContentProofs.parsed_tree_content toks memo t U H) (ContentProofs.parser_output_content toks memo t U H)). Qed.
Check C07_tree_carries_exactly_the_tokens : forall toks memo t, ContentProofs.underscores_ok toks ->
  fst (fst (parse_stage1 toks memo)) = S1Tree t ->
  ContentProofs.content t = ContentProofs.tok_content toks /\ ContentProofs.content (reassociate t) = ContentProofs.tok_content toks.
Print Assumptions C07_tree_carries_exactly_the_tokens.

Theorem C07_tree_content_without_hypothesis : forall toks memo t keep, ContentProofs.hides_underscores keep ->
  fst (fst (parse_stage1 toks memo)) = S1Tree t ->
  filter keep (ContentProofs.content (reassociate t)) = filter keep (ContentProofs.tok_content toks).
Proof. exact ContentProofs.parser_output_content_any. Qed.
Check C07_tree_content_without_hypothesis : forall toks memo t keep, ContentProofs.hides_underscores keep ->
  fst (fst (parse_stage1 toks memo)) = S1Tree t ->
  filter keep (ContentProofs.content (reassociate t)) = filter keep (ContentProofs.tok_content toks).
Print Assumptions C07_tree_content_without_hypothesis.


(* ACCEPTED IF AND ONLY IF A SENTENCE (Proofs/PegSem.v, GrammarTables.v, GrammarFacts.v, CompleteProofs.v): the converse of
   parse_sound. The packrat parser with ordered choice and no backtracking over a committed alternative accepts EVERY
   sentence of the grammar regenerated from grammar.y - a property of this grammar, not of packrat parsing: each ordered
   choice lists the longer alternative first or alternatives the first two tokens tell apart (tables `P2`, FOLLOW table
   `fo`, computed from the generated grammar and checked closed under its productions by vm_compute), and whatever may
   follow a nonterminal cannot extend it. An abstract ordered-choice relation `pegR` is refined by the model for every fuel
   and memo state (`parse_refines_peg`), and every derivation yields a `pegR` derivation (`peg_complete`). The one
   non-local case is a parenthesised annotated definition `( x : a = b ; c ) -> d`, first tried as an annotated lambda and
   as a function type. *)
Theorem C07_accepted_iff_sentence : forall toks memo,
  (exists t, fst (fst (parse_stage1 toks memo)) = S1Tree t) <-> derives Term (map pk toks).
Proof. exact CompleteProofs.parse_accepts_iff_sentence. Qed.
Check C07_accepted_iff_sentence : forall toks memo,
  (exists t, fst (fst (parse_stage1 toks memo)) = S1Tree t) <-> derives Term (map pk toks).
Print Assumptions C07_accepted_iff_sentence.

Theorem C07_sentence_implies_accepted : forall toks memo, derives Term (map pk toks) -> exists t, fst (fst (parse_stage1 toks memo)) = S1Tree t.
Proof. exact CompleteProofs.parse_complete_memo. Qed.
Check C07_sentence_implies_accepted : forall toks memo, derives Term (map pk toks) -> exists t, fst (fst (parse_stage1 toks memo)) = S1Tree t.
Print Assumptions C07_sentence_implies_accepted.


(* THE GRAMMAR IS UNAMBIGUOUS AND THE PARSER BUILDS THE DERIVATION (Proofs/Unambiguous.v, TreeDerivation.v). Derivation trees
   as data (`dtree`, every production and unit production a node); two well-formed trees with the same root and the same
   yield are EQUAL, for every nonterminal (the tree-building ordered-choice semantics `pegT` is deterministic and builds
   every well-formed tree). For an accepted token list the raw tree of the parser model is the image of THE derivation
   tree of its token kinds (unit productions forgotten, parentheses as the group flag, names and literal values from the
   tokens), every token consumed, and the final tree is that derivation with application, `*` `/` and `+` `-` chains
   re-associated to the left and parenthesised nodes kept as single operands. With C07_accepted_iff_sentence this is the
   whole property as a theorem of the model. *)
Theorem C07_grammar_unambiguous : forall d1 d2, Unambiguous.dt_ok d1 -> Unambiguous.dt_ok d2 -> Unambiguous.root d1 = Unambiguous.root d2 ->
  Unambiguous.dyield d1 = Unambiguous.dyield d2 -> d1 = d2.
Proof. exact Unambiguous.grammar_unambiguous. Qed.
Check C07_grammar_unambiguous : forall d1 d2, Unambiguous.dt_ok d1 -> Unambiguous.dt_ok d2 -> Unambiguous.root d1 = Unambiguous.root d2 ->
  Unambiguous.dyield d1 = Unambiguous.dyield d2 -> d1 = d2.
Print Assumptions C07_grammar_unambiguous.

Theorem C07_derives_iff_tree : forall n w, derives n w <-> exists d, Unambiguous.dt_ok d /\ Unambiguous.root d = n /\ Unambiguous.dyield d = w.
Proof. exact Unambiguous.derives_iff_tree. Qed.
Check C07_derives_iff_tree : forall n w, derives n w <-> exists d, Unambiguous.dt_ok d /\ Unambiguous.root d = n /\ Unambiguous.dyield d = w.
Print Assumptions C07_derives_iff_tree.

Theorem C07_tree_is_the_derivation : forall toks memo t m s,
  parse_stage1 toks memo = (S1Tree t, m, s) ->
  exists d,
    (Unambiguous.dt_ok d /\ Unambiguous.root d = Term /\ Unambiguous.dyield d = map pk toks) /\
    (forall d', Unambiguous.dt_ok d' -> Unambiguous.root d' = Term -> Unambiguous.dyield d' = map pk toks -> d' = d) /\
    TreeDerivation.tod (tokmap_of toks) d 0%N = (gstrip t, N.of_nat (length toks)) /\
    gstrip t = TreeDerivation.gtree_of toks d /\
    strip (reassociate t) = spec_all (TreeDerivation.gtree_of toks d).
Proof. exact TreeDerivation.parser_builds_derivation. Qed.
Check C07_tree_is_the_derivation : forall toks memo t m s,
  parse_stage1 toks memo = (S1Tree t, m, s) ->
  exists d,
    (Unambiguous.dt_ok d /\ Unambiguous.root d = Term /\ Unambiguous.dyield d = map pk toks) /\
    (forall d', Unambiguous.dt_ok d' -> Unambiguous.root d' = Term -> Unambiguous.dyield d' = map pk toks -> d' = d) /\
    TreeDerivation.tod (tokmap_of toks) d 0%N = (gstrip t, N.of_nat (length toks)) /\
    gstrip t = TreeDerivation.gtree_of toks d /\
    strip (reassociate t) = spec_all (TreeDerivation.gtree_of toks d).
Print Assumptions C07_tree_is_the_derivation.

