(* C03  The type checker never accepts an ill-typed program.
   The "independent checker for explicitly typed terms" is Oracle/Infer.v; it is proved sound against
   the declarative typing rules of Spec/Typing.v (no confluence or normalisation needed). Every
   program the implementation accepts is handed, elaborated term and reported type, to the extracted
   checker: acceptance by it is a kernel-checked certificate that the instance is well typed. The
   universal statement about the checker is refuted for today's code by the recorded finding D9
   (C03_soundness_refuted_D9, a witness with an unsolved hole in the input, reproduced inside Coq). On the
   fragment where D9 cannot occur - programs without holes, i.e. fully annotated ones - soundness IS a
   theorem of the checker model (Model B, the mirror compared with type_check case by case):
   C03_checker_model_sound_on_hole_free (Proofs/TcSoundHF.v: a simulation up to zonking; every hole the
   application rule allocates is solved at once, so no unsolved hole is ever copied). *)
From Coq Require Import List ZArith Bool Relations.
Import ListNotations.
Require Import Gram.Model.ModelB.
Require Import Gram.Model.Term Gram.Model.DeBruijn Gram.Model.Eval Gram.Spec.Typing Gram.Oracle.Infer Gram.Proofs.InferSound Gram.Proofs.TcSoundHF.
Require Gram.Proofs.ScopeStore Gram.Proofs.AcyclicProofs Gram.Proofs.UnifyConsistent Gram.Proofs.TcSoundHoles Gram.Proofs.TcHolesOk.

Theorem C03_whnf_sound : forall fuel G t u, whnf fuel G t = Some u -> clos_refl_trans term (red G) t u.
Proof. exact whnf_sound. Qed.
Check C03_whnf_sound : forall fuel G t u, whnf fuel G t = Some u -> clos_refl_trans term (red G) t u.
Print Assumptions C03_whnf_sound.

Theorem C03_convb_sound : forall fuel G a b, convb fuel G a b = Some true -> conv G a b.
Proof. exact convb_sound. Qed.
Check C03_convb_sound : forall fuel G a b, convb fuel G a b = Some true -> conv G a b.
Print Assumptions C03_convb_sound.

Theorem C03_infer_sound : forall fuel G t T, infer fuel G t = Some T -> has_type G t T.
Proof. exact infer_sound. Qed.
Check C03_infer_sound : forall fuel G t T, infer fuel G t = Some T -> has_type G t T.
Print Assumptions C03_infer_sound.

(* what a run establishes for one accepted program (e, T): *)
Theorem C03_instance_certificate : forall fuel e T T',
  infer fuel [] e = Some T' -> convb fuel [] T' T = Some true -> has_type [] e T.
Proof. exact instance_certificate. Qed.
Check C03_instance_certificate : forall fuel e T T',
  infer fuel [] e = Some T' -> convb fuel [] T' T = Some true -> has_type [] e T.
Print Assumptions C03_instance_certificate.

(* non-vacuity and a regression: the checker certifies a polymorphic identity and a recursive group,
   and rejects the witness of the repaired defect D6 *)
Theorem C03_examples :
  infer 30 [] (TLet [(TPi false TType (TPi false (TVar 0) (TVar 1)), TLam false TType (TLam false (TVar 0) (TVar 0)))]
                    (TApp (TApp (TVar 0) TInt) (TLit 3))) = Some TInt /\
  infer 40 [] (TLet [(TApp (TLam false TInt TInt) TTrue, TLit 3)] (TVar 0)) = None.
Proof. exact validator_examples. Qed.
Check C03_examples : _ /\ _.
Print Assumptions C03_examples.

(* The universal statement - every program the implementation accepts is well typed - is refuted for today's code
   by the recorded finding D9, and the refutation is reproduced inside Coq on Model B (the store-passing mirror of
   type_check that the MB stream compares with the implementation): the witness is accepted without a diagnostic
   at type int, and its elaborated term evaluates to the stuck term `true + 1`. *)
Definition D9_witness : term :=      (* ((f : int -> _) => f 1 + 1) ((x : int) => true) *)
  TApp (TLam false (TPi false TInt (THole 0 1)) (TBin OSum (TApp (TVar 0) (TLit 1)) (TLit 1))) (TLam false TInt TTrue).
Definition D9_check : bool :=
  match tcB 60 [None] [] [] D9_witness with
  | Some r => match b_errs r, zonkB 40 (b_st r) (b_ty r), evaluate 50 (zonkB 40 (b_st r) (b_elab r)) with
              | [], TInt, Some (TBin OSum TTrue (TLit 1)) => true | _, _, _ => false end
  | None => false end.
Theorem C03_soundness_refuted_D9 :
  D9_check = true /\ is_value (TBin OSum TTrue (TLit 1)) = false /\ step (TBin OSum TTrue (TLit 1)) = None.
Proof. vm_compute. repeat split; reflexivity. Qed.
Check C03_soundness_refuted_D9 :
  D9_check = true /\ is_value (TBin OSum TTrue (TLit 1)) = false /\ step (TBin OSum TTrue (TLit 1)) = None.
Print Assumptions C03_soundness_refuted_D9.

(* soundness of the checker model on hole-free programs: accepted without a diagnostic => the elaborated term
   is the program itself, well typed at a type definitionally equal to the reported one *)
Theorem C03_checker_model_sound_on_hole_free : forall f t r,
  hole_free t = true -> tcB f [] [] [] t = Some r -> b_errs r = [] ->
  exists T n0, has_type [] t T /\
    forall n, n0 <= n -> conv [] T (zonkB n (b_st r) (b_ty r)) /\ zonkB n (b_st r) (b_elab r) = t.
Proof. exact tcB_sound_hole_free_zonkB. Qed.
Check C03_checker_model_sound_on_hole_free : forall f t r,
  hole_free t = true -> tcB f [] [] [] t = Some r -> b_errs r = [] ->
  exists T n0, has_type [] t T /\
    forall n, n0 <= n -> conv [] T (zonkB n (b_st r) (b_ty r)) /\ zonkB n (b_st r) (b_elab r) = t.
Print Assumptions C03_checker_model_sound_on_hole_free.

(* recorded finding D19 inside Coq: with a hole under a binder of an annotation, the checker model accepts - without
   any diagnostic - a program whose elaborated term is ILL SCOPED (index 2 at depth 2), and under one more binder a
   program at an unsound type: z's annotation means `type -> g` where the program says `type -> f` *)
Theorem C03_ill_scoped_elaboration_D19 : ltac:(let T := type of Gram.Proofs.ScopeStore.CE.tcB_elaborates_ill_scoped in exact T).
Proof. exact Gram.Proofs.ScopeStore.CE.tcB_elaborates_ill_scoped. Qed.
Check C03_ill_scoped_elaboration_D19 : _ /\ _ /\ _ /\ _ = false /\ _ = false.
Print Assumptions C03_ill_scoped_elaboration_D19.

Theorem C03_wrong_variable_D19 : ltac:(let T := type of Gram.Proofs.ScopeStore.CE.tcB_wrong_variable in exact T).
Proof. exact Gram.Proofs.ScopeStore.CE.tcB_wrong_variable. Qed.
Check C03_wrong_variable_D19 : _ /\ _ = true.
Print Assumptions C03_wrong_variable_D19.

(* SOUNDNESS WITH HOLES, for every run during which neither instrumented event occurs (Proofs/TcSoundHoles.v). `tcN` is
   the checker of Model B over the aborting `unifyN` / `openN` / `ushiftN` of C12 (hooks H1 / H3). When it answers, the real
   checker model gives the same answer (tcN_refines); the elaborated term is the input; and if no error is reported, then -
   with the cells still unsolved at the end filled by any hole-free `v` - the program is well typed at the reported type,
   provided the contents of the holes THE USER WROTE are types (`holes_ok`: the checker's rule for `_` claims the type
   `type`; for a cell left unsolved this says the filler must be a type, which is necessary: `(x : 3) => 3` has no type).
   The two recorded witnesses abort (D9, D19), and no third event is needed. *)
Theorem C03_checker_model_sound_when_hooks_are_silent : forall H f s t r v,
  TcSoundHoles.store_okM H s -> AcyclicProofs.acyclic s -> TcSoundHoles.wsM H 0 t -> TcSoundHoles.tcN f s [] [] t = Some r -> b_errs r = [] -> hole_free v = true ->
  TcSoundHoles.holes_ok (UnifyConsistent.fill v (b_st r)) t [] ->
  tcB f s [] [] t = Some r /\ b_elab r = t /\
  exists eu Tu, TcSoundHF.zk (UnifyConsistent.fill v (b_st r)) (b_elab r) eu /\ TcSoundHF.zk (UnifyConsistent.fill v (b_st r)) (b_ty r) Tu /\ has_type [] eu Tu.
Proof. exact TcSoundHoles.tcN_sound_closed. Qed.
Check C03_checker_model_sound_when_hooks_are_silent : forall H f s t r v,
  TcSoundHoles.store_okM H s -> AcyclicProofs.acyclic s -> TcSoundHoles.wsM H 0 t -> TcSoundHoles.tcN f s [] [] t = Some r -> b_errs r = [] -> hole_free v = true ->
  TcSoundHoles.holes_ok (UnifyConsistent.fill v (b_st r)) t [] ->
  tcB f s [] [] t = Some r /\ b_elab r = t /\
  exists eu Tu, TcSoundHF.zk (UnifyConsistent.fill v (b_st r)) (b_elab r) eu /\ TcSoundHF.zk (UnifyConsistent.fill v (b_st r)) (b_ty r) Tu /\ has_type [] eu Tu.
Print Assumptions C03_checker_model_sound_when_hooks_are_silent.

Theorem C03_instrumented_checker_refines : forall f s G D t r, TcSoundHoles.tcN f s G D t = Some r -> tcB f s G D t = Some r.
Proof. exact TcSoundHoles.tcN_refines. Qed.
Check C03_instrumented_checker_refines : forall f s G D t r, TcSoundHoles.tcN f s G D t = Some r -> tcB f s G D t = Some r.
Print Assumptions C03_instrumented_checker_refines.

Theorem C03_recorded_witnesses_abort : ltac:(let T1 := type of TcSoundHoles.WitnessT.D9_witness_aborts in let T2 := type of TcSoundHoles.WitnessT.D19_witness_aborts in exact (T1 /\ T2)).
Proof. exact (conj TcSoundHoles.WitnessT.D9_witness_aborts TcSoundHoles.WitnessT.D19_witness_aborts). Qed.
Check C03_recorded_witnesses_abort : _ /\ _.
Print Assumptions C03_recorded_witnesses_abort.

(* ... and without any hypothesis on the holes for the simply typed fragment (`simple`: no type used as a term, annotations
   omitted or base types): every solution the checker records is a base type (Proofs/TcHolesOk.v) *)
Theorem C03_sound_with_inferred_annotations_simply_typed : forall H f s t r v,
  TcHolesOk.simple t = true -> TcHolesOk.J s -> TcSoundHoles.store_okM H s -> AcyclicProofs.acyclic s -> TcSoundHoles.wsM H 0 t ->
  TcSoundHoles.tcN f s [] [] t = Some r -> b_errs r = [] -> TcSoundHoles.base_ty v = true ->
  tcB f s [] [] t = Some r /\ b_elab r = t /\
  exists eu Tu, TcSoundHF.zk (UnifyConsistent.fill v (b_st r)) t eu /\ TcSoundHF.zk (UnifyConsistent.fill v (b_st r)) (b_ty r) Tu /\ has_type [] eu Tu /\ TcSoundHoles.base_ty Tu = true.
Proof. exact TcHolesOk.tcN_sound_simple. Qed.
Check C03_sound_with_inferred_annotations_simply_typed : forall H f s t r v,
  TcHolesOk.simple t = true -> TcHolesOk.J s -> TcSoundHoles.store_okM H s -> AcyclicProofs.acyclic s -> TcSoundHoles.wsM H 0 t ->
  TcSoundHoles.tcN f s [] [] t = Some r -> b_errs r = [] -> TcSoundHoles.base_ty v = true ->
  tcB f s [] [] t = Some r /\ b_elab r = t /\
  exists eu Tu, TcSoundHF.zk (UnifyConsistent.fill v (b_st r)) t eu /\ TcSoundHF.zk (UnifyConsistent.fill v (b_st r)) (b_ty r) Tu /\ has_type [] eu Tu /\ TcSoundHoles.base_ty Tu = true.
Print Assumptions C03_sound_with_inferred_annotations_simply_typed.

