(* C18  Checking under a context matches the closed program; contexts are restored.
   Proved: the meaning of the depth offsets that context entries carry (a parameter's type is lifted
   by one at index 0 and by one more under every further binder; a group's annotations and
   definitions are used exactly as written right after the group is entered), and - through
   whnf_sound / convb_sound, which are stated under an arbitrary context G - that normalisation and
   the conversion test under a context are sound for the reduction / definitional equality of that
   context. That the implementation's normalize_weak_head / unify / type_check under a context behave
   like these mirrors, give the closed wrapper's verdict and type, and restore the caller's contexts
   in every outcome is decided by the streams. *)
From Coq Require Import List ZArith Bool Relations.
Import ListNotations.
Require Import Gram.Model.Term Gram.Model.DeBruijn Gram.Model.Eval Gram.Spec.Typing Gram.Oracle.Infer Gram.Proofs.InferSound Gram.Proofs.CtxProofs.

Theorem C18_lookup_param : forall G A, lookup_ty (bind G A) 0 = Some (ushift A 0 1).
Proof. exact lookup_ty_bind0. Qed.
Check C18_lookup_param : forall G A, lookup_ty (bind G A) 0 = Some (ushift A 0 1).
Print Assumptions C18_lookup_param.

Theorem C18_lookup_under_binder : forall G A i, wf_offsets G ->
  lookup_ty (bind G A) (S i) = match lookup_ty G i with Some T => Some (ushift T 0 1) | None => None end.
Proof. exact lookup_ty_bind_S. Qed.
Check C18_lookup_under_binder : forall G A i, wf_offsets G ->
  lookup_ty (bind G A) (S i) = match lookup_ty G i with Some T => Some (ushift T 0 1) | None => None end.
Print Assumptions C18_lookup_under_binder.

Theorem C18_lookup_group : forall ds G i a d,
  nth_error ds i = Some (a, d) ->
  lookup_ty (enter ds G) (length ds - 1 - i) = Some a /\ lookup_def (enter ds G) (length ds - 1 - i) = Some d.
Proof. exact lookup_enter. Qed.
Check C18_lookup_group : forall ds G i a d,
  nth_error ds i = Some (a, d) ->
  lookup_ty (enter ds G) (length ds - 1 - i) = Some a /\ lookup_def (enter ds G) (length ds - 1 - i) = Some d.
Print Assumptions C18_lookup_group.

Theorem C18_whnf_under_context_sound : forall fuel G t u, whnf fuel G t = Some u -> clos_refl_trans term (red G) t u.
Proof. exact whnf_sound. Qed.
Check C18_whnf_under_context_sound : forall fuel G t u, whnf fuel G t = Some u -> clos_refl_trans term (red G) t u.
Print Assumptions C18_whnf_under_context_sound.

Theorem C18_offsets_example :
  let G := bind (enter [(TVar 2, TVar 0); (TInt, TLit 5)] (bind [] TType)) TBool in
  lookup_ty G 0 = Some TBool /\ lookup_ty G 1 = Some TInt /\ lookup_ty G 2 = Some (TVar 3) /\ lookup_ty G 3 = Some TType /\
  lookup_def G 2 = Some (TVar 1).
Proof. exact lookup_offsets_example. Qed.
Check C18_offsets_example : let G := _ in _ /\ _ /\ _ /\ _ /\ _.
Print Assumptions C18_offsets_example.
