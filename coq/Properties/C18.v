(* C18  Checking under a context matches the closed program; contexts are restored.
   Proved: the meaning of the depth offsets that context entries carry (a parameter's type is lifted
   by one at index 0 and by one more under every further binder; a group's annotations and
   definitions are used exactly as written right after the group is entered), and - through
   whnf_sound / convb_sound, which are stated under an arbitrary context G - that normalisation and
   the conversion test under a context are sound for the reduction / definitional equality of that
   context. Proved as well (Proofs/WeakenProofs.v): inserting any block of entries B anywhere into a
   context (the entries above the insertion point re-indexed as `ushift` does, offsets unchanged) and
   shifting the term accordingly commutes with weak-head normalisation, with full normalisation and
   with the conversion test, at every fuel - in particular a closed term normalises / compares under
   ANY context exactly as it does in the empty one, parameters and definitions with offsets alike
   (hole-free terms; `hole_free_needed` shows the restriction is necessary: D9). That the implementation's normalize_weak_head / unify / type_check under a context behave
   like these mirrors, give the closed wrapper's verdict and type, and restore the caller's contexts
   in every outcome is decided by the streams. *)
From Coq Require Import List ZArith Bool Relations.
Import ListNotations.
Require Import Gram.Model.Term Gram.Model.DeBruijn Gram.Model.Eval Gram.Spec.Typing Gram.Oracle.Infer Gram.Proofs.InferSound Gram.Proofs.CtxProofs Gram.Proofs.WeakenProofs Gram.Proofs.WeakenInfer.

Theorem C18_lookup_param : forall G A, lookup_ty (bind G A) 0 = Some (ushift A 0 1).
Proof. exact lookup_ty_bind0. Qed.
Check C18_lookup_param : forall G A, lookup_ty (bind G A) 0 = Some (ushift A 0 1).
Print Assumptions C18_lookup_param.

Theorem C18_lookup_under_binder : forall G A i, wf_offsets G ->
  lookup_ty (bind G A) (S i) = match lookup_ty G i with Some T => Some (ushift T 0 1) | None => None end.
Proof. exact lookup_ty_bind_S. Qed.
Check C18_lookup_under_binder : forall G A i, wf_offsets G ->
  lookup_ty (bind G A) (S i) = match lookup_ty G i with Some T => Some (ushift T 0 1) | None => None end.
Print Assumptions C18_lookup_under_binder.

Theorem C18_lookup_group : forall ds G i a d,
  nth_error ds i = Some (a, d) ->
  lookup_ty (enter ds G) (length ds - 1 - i) = Some a /\ lookup_def (enter ds G) (length ds - 1 - i) = Some d.
Proof. exact lookup_enter. Qed.
Check C18_lookup_group : forall ds G i a d,
  nth_error ds i = Some (a, d) ->
  lookup_ty (enter ds G) (length ds - 1 - i) = Some a /\ lookup_def (enter ds G) (length ds - 1 - i) = Some d.
Print Assumptions C18_lookup_group.

Theorem C18_whnf_under_context_sound : forall fuel G t u, whnf fuel G t = Some u -> clos_refl_trans term (red G) t u.
Proof. exact whnf_sound. Qed.
Check C18_whnf_under_context_sound : forall fuel G t u, whnf fuel G t = Some u -> clos_refl_trans term (red G) t u.
Print Assumptions C18_whnf_under_context_sound.

Theorem C18_offsets_example :
  let G := bind (enter [(TVar 2, TVar 0); (TInt, TLit 5)] (bind [] TType)) TBool in
  lookup_ty G 0 = Some TBool /\ lookup_ty G 1 = Some TInt /\ lookup_ty G 2 = Some (TVar 3) /\ lookup_ty G 3 = Some TType /\
  lookup_def G 2 = Some (TVar 1).
Proof. exact lookup_offsets_example. Qed.
Check C18_offsets_example : let G := _ in _ /\ _ /\ _ /\ _ /\ _.
Print Assumptions C18_offsets_example.

(* the context with B inserted below the |L| innermost entries answers lookups with the shifted answer *)
Theorem C18_lookup_insert : forall L B G i, wf_offsets L -> wf_offsets G ->
  lookup_ty (insert_ctx L B G) (up_idx i (length L) (length B)) =
  option_map (fun d => ushift d (length L) (length B)) (lookup_ty (L ++ G) i).
Proof. exact lookup_ty_insert. Qed.
Check C18_lookup_insert : forall L B G i, wf_offsets L -> wf_offsets G ->
  lookup_ty (insert_ctx L B G) (up_idx i (length L) (length B)) =
  option_map (fun d => ushift d (length L) (length B)) (lookup_ty (L ++ G) i).
Print Assumptions C18_lookup_insert.

Theorem C18_whnf_insert : forall B G, wf_offsets G -> forall f L t,
  wf_offsets L -> ctx_hf (L ++ G) -> hole_free t = true ->
  whnf f (insert_ctx L B G) (ushift t (length L) (length B)) =
  option_map (fun u => ushift u (length L) (length B)) (whnf f (L ++ G) t).
Proof. exact whnf_insert. Qed.
Check C18_whnf_insert : forall B G, wf_offsets G -> forall f L t,
  wf_offsets L -> ctx_hf (L ++ G) -> hole_free t = true ->
  whnf f (insert_ctx L B G) (ushift t (length L) (length B)) =
  option_map (fun u => ushift u (length L) (length B)) (whnf f (L ++ G) t).
Print Assumptions C18_whnf_insert.

Theorem C18_convb_insert : forall B G, wf_offsets G -> forall f L a b,
  wf_offsets L -> ctx_hf (L ++ G) -> hole_free a = true -> hole_free b = true ->
  convb f (insert_ctx L B G) (ushift a (length L) (length B)) (ushift b (length L) (length B)) =
  convb f (L ++ G) a b.
Proof. exact convb_insert. Qed.
Check C18_convb_insert : forall B G, wf_offsets G -> forall f L a b,
  wf_offsets L -> ctx_hf (L ++ G) -> hole_free a = true -> hole_free b = true ->
  convb f (insert_ctx L B G) (ushift a (length L) (length B)) (ushift b (length L) (length B)) =
  convb f (L ++ G) a b.
Print Assumptions C18_convb_insert.

(* a closed term under any context behaves as in the empty context *)
Theorem C18_whnf_closed_under : forall B f t, hole_free t = true ->
  whnf f B (ushift t 0 (length B)) = option_map (fun u => ushift u 0 (length B)) (whnf f [] t).
Proof. exact whnf_closed_under. Qed.
Check C18_whnf_closed_under : forall B f t, hole_free t = true ->
  whnf f B (ushift t 0 (length B)) = option_map (fun u => ushift u 0 (length B)) (whnf f [] t).
Print Assumptions C18_whnf_closed_under.

Theorem C18_convb_closed_under : forall B f a b, hole_free a = true -> hole_free b = true ->
  convb f B (ushift a 0 (length B)) (ushift b 0 (length B)) = convb f [] a b.
Proof. exact convb_closed_under. Qed.
Check C18_convb_closed_under : forall B f a b, hole_free a = true -> hole_free b = true ->
  convb f B (ushift a 0 (length B)) (ushift b 0 (length B)) = convb f [] a b.
Print Assumptions C18_convb_closed_under.

(* non-vacuity and necessity, computed inside Coq *)
Theorem C18_insert_example : ltac:(let T := type of insert_example in exact T).
Proof. exact insert_example. Qed.
Check C18_insert_example : let G := _ in let L := _ in let B := _ in let t := _ in _ /\ _ /\ _ /\ _ /\ _ /\ _ /\ _ /\ _ /\ _ /\ _ /\ _.
Print Assumptions C18_insert_example.

(* the same for the verified CHECKER (Proofs/WeakenInfer.v): checking a term under the context with B inserted
   gives the same verdict and the correspondingly shifted type, at every fuel; a closed term checks under any
   context exactly as it does closed; and conversely a term that does not mention the inserted block checks
   without it (strengthening). *)
Theorem C18_infer_insert : forall B G, wf_offsets G -> forall f L t,
  wf_offsets L -> ctx_hf' (L ++ G) -> hole_free t = true ->
  infer f (insert_ctx L B G) (ushift t (length L) (length B)) =
  option_map (fun T => ushift T (length L) (length B)) (infer f (L ++ G) t).
Proof. exact infer_insert. Qed.
Check C18_infer_insert : forall B G, wf_offsets G -> forall f L t,
  wf_offsets L -> ctx_hf' (L ++ G) -> hole_free t = true ->
  infer f (insert_ctx L B G) (ushift t (length L) (length B)) =
  option_map (fun T => ushift T (length L) (length B)) (infer f (L ++ G) t).
Print Assumptions C18_infer_insert.

Theorem C18_infer_closed_under : forall B f t, hole_free t = true ->
  infer f B (ushift t 0 (length B)) = option_map (fun T => ushift T 0 (length B)) (infer f [] t).
Proof. exact infer_closed_under. Qed.
Check C18_infer_closed_under : forall B f t, hole_free t = true ->
  infer f B (ushift t 0 (length B)) = option_map (fun T => ushift T 0 (length B)) (infer f [] t).
Print Assumptions C18_infer_closed_under.

Theorem C18_typing_under_inserted_context : forall B G f L t T,
  wf_offsets G -> wf_offsets L -> ctx_hf' (L ++ G) -> hole_free t = true ->
  infer f (L ++ G) t = Some T ->
  has_type (insert_ctx L B G) (ushift t (length L) (length B)) (ushift T (length L) (length B)).
Proof. exact infer_insert_has_type. Qed.
Check C18_typing_under_inserted_context : forall B G f L t T,
  wf_offsets G -> wf_offsets L -> ctx_hf' (L ++ G) -> hole_free t = true ->
  infer f (L ++ G) t = Some T ->
  has_type (insert_ctx L B G) (ushift t (length L) (length B)) (ushift T (length L) (length B)).
Print Assumptions C18_typing_under_inserted_context.

Theorem C18_infer_strengthen : forall B G f L' L t t0 T,
  wf_offsets G -> wf_offsets L' -> ctx_hf' L' -> ctx_hf' G -> hole_free t = true ->
  unshift_ctx L' (length B) = Some L ->
  sshift t (length L') (- Z.of_nat (length B)) = Some t0 ->
  infer f (L' ++ B ++ G) t = Some T ->
  exists T0, infer f (L ++ G) t0 = Some T0 /\ sshift T (length L') (- Z.of_nat (length B)) = Some T0.
Proof. exact infer_strengthen. Qed.
Check C18_infer_strengthen : forall B G f L' L t t0 T,
  wf_offsets G -> wf_offsets L' -> ctx_hf' L' -> ctx_hf' G -> hole_free t = true ->
  unshift_ctx L' (length B) = Some L ->
  sshift t (length L') (- Z.of_nat (length B)) = Some t0 ->
  infer f (L' ++ B ++ G) t = Some T ->
  exists T0, infer f (L ++ G) t0 = Some T0 /\ sshift T (length L') (- Z.of_nat (length B)) = Some T0.
Print Assumptions C18_infer_strengthen.
