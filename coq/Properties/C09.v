(* C09  Tokens partition the source text exactly.
   Proved here, for every text (a list of characters with positive widths whose ASCII members carry
   the ASCII classes) and every grapheme oracle: if the tokenizer model returns tokens, they partition
   the text - in source order, disjoint, on character boundaries, each range containing exactly the
   token's own text, only whitespace and comments in between, identifiers / numbers / two-character
   symbols matched maximally, keywords only as whole words, literals with their exact decimal value
   (C09_tokenize_partition; `partition_ok` is the walker of Spec/TokenSpec.v). Also: the generated
   tables produce every fixed token from its own text, the model never reaches the second pass's
   panic. The same `partition_ok` is run on the IMPLEMENTATION's tokens for every generated input. *)
From Coq Require Import List ZArith NArith Bool.
Import ListNotations.
Require Import Gram.Model.Token Gram.Gen.TokenTables Gram.Model.Tokenizer Gram.Spec.TokenSpec Gram.Proofs.TokenizerProofs Gram.Proofs.PartitionProofs.

Theorem C09_tokenize_partition : forall gend cs ts,
  Forall ch_wf cs -> tokenize gend cs = Ok ts -> partition_ok cs ts = true.
Proof. exact tokenize_partition. Qed.
Check C09_tokenize_partition : forall gend cs ts,
  Forall ch_wf cs -> tokenize gend cs = Ok ts -> partition_ok cs ts = true.
Print Assumptions C09_tokenize_partition.

Theorem C09_partition_obligations :
  forallb symbol_entry_ok symbol_table = true /\ forallb pair_entry_ok pair_table = true /\
  amax KLineBreak = true /\ lexeme_of KLineBreak = Some [10%N].
Proof. exact tables_partition_obligations. Qed.
Check C09_partition_obligations :
  forallb symbol_entry_ok symbol_table = true /\ forallb pair_entry_ok pair_table = true /\
  amax KLineBreak = true /\ lexeme_of KLineBreak = Some [10%N].
Print Assumptions C09_partition_obligations.

(* the hypothesis is satisfiable: every ASCII character as the correspondence glue builds it is well formed *)
Theorem C09_ascii_wf : forall n, (n < 128)%N -> ch_wf (asc n).
Proof. exact asc_wf. Qed.
Check C09_ascii_wf : forall n, (n < 128)%N -> ch_wf (asc n).
Print Assumptions C09_ascii_wf.

Theorem C09_tables_match_lexemes :
  forallb symbol_ok symbol_table = true /\ forallb pair_ok pair_table = true /\
  forallb keyword_ok keyword_table = true /\
  forallb (fun k => existsb (fun p => tkind_eqb (snd p) k) keyword_table) keyword_kinds = true.
Proof. exact tables_match_lexemes. Qed.
Check C09_tables_match_lexemes :
  forallb symbol_ok symbol_table = true /\ forallb pair_ok pair_table = true /\
  forallb keyword_ok keyword_table = true /\
  forallb (fun k => existsb (fun p => tkind_eqb (snd p) k) keyword_table) keyword_kinds = true.
Print Assumptions C09_tables_match_lexemes.

Theorem C09_tokenize_no_panic : forall gend cs, tokenize gend cs <> Panic.
Proof. exact tokenize_no_panic. Qed.
Check C09_tokenize_no_panic : forall gend cs, tokenize gend cs <> Panic.
Print Assumptions C09_tokenize_no_panic.

(* non-vacuity: "x = 1 #\nx + 5" tokenizes, partitions its text, and obeys the layout rule *)
Definition ex_src := map asc [120;32;61;32;49;32;35;10;120;32;43;32;53]%N.
Theorem C09_example :
  match tokenize (fun i => S i) ex_src with
  | Ok ts => map (fun t => kind_of (tv t)) ts = [KIdentifier; KEquals; KIntegerLiteral; KLineBreak; KIdentifier; KPlus; KIntegerLiteral]
             /\ partition_ok ex_src ts = true /\ layout_ok ex_src ts = true
  | _ => False end.
Proof. vm_compute. repeat split; reflexivity. Qed.
Check C09_example : match tokenize (fun i => S i) ex_src with Ok ts => _ | _ => False end.
Print Assumptions C09_example.
