(* C09  Tokens partition the source text exactly.
   Proved here: the generated symbol / look-ahead / keyword tables produce every fixed token from
   exactly its own text, and the tokenizer model never reaches the second pass's panic. The
   partition statement itself (`tokenize gend cs = Ok ts -> partition_ok cs ts = true`) is evaluated
   as the executable oracle `partition_ok` on the IMPLEMENTATION's tokens for every generated input;
   it is stated below as C09_partition_statement and is not yet a theorem (named partial in DESIGN). *)
From Coq Require Import List ZArith NArith Bool.
Import ListNotations.
Require Import Gram.Model.Token Gram.Gen.TokenTables Gram.Model.Tokenizer Gram.Spec.TokenSpec Gram.Proofs.TokenizerProofs.

Definition C09_partition_statement : Prop :=
  forall gend cs ts, tokenize gend cs = Ok ts -> partition_ok cs ts = true.

Theorem C09_tables_match_lexemes :
  forallb symbol_ok symbol_table = true /\ forallb pair_ok pair_table = true /\
  forallb keyword_ok keyword_table = true /\
  forallb (fun k => existsb (fun p => tkind_eqb (snd p) k) keyword_table) keyword_kinds = true.
Proof. exact tables_match_lexemes. Qed.
Check C09_tables_match_lexemes :
  forallb symbol_ok symbol_table = true /\ forallb pair_ok pair_table = true /\
  forallb keyword_ok keyword_table = true /\
  forallb (fun k => existsb (fun p => tkind_eqb (snd p) k) keyword_table) keyword_kinds = true.
Print Assumptions C09_tables_match_lexemes.

Theorem C09_tokenize_no_panic : forall gend cs, tokenize gend cs <> Panic.
Proof. exact tokenize_no_panic. Qed.
Check C09_tokenize_no_panic : forall gend cs, tokenize gend cs <> Panic.
Print Assumptions C09_tokenize_no_panic.

(* non-vacuity: "x = 1 #\nx + 5" tokenizes, partitions its text, and obeys the layout rule *)
Definition ex_src := map asc [120;32;61;32;49;32;35;10;120;32;43;32;53]%N.
Theorem C09_example :
  match tokenize (fun i => S i) ex_src with
  | Ok ts => map (fun t => kind_of (tv t)) ts = [KIdentifier; KEquals; KIntegerLiteral; KLineBreak; KIdentifier; KPlus; KIntegerLiteral]
             /\ partition_ok ex_src ts = true /\ layout_ok ex_src ts = true
  | _ => False end.
Proof. vm_compute. repeat split; reflexivity. Qed.
Check C09_example : match tokenize (fun i => S i) ex_src with Ok ts => _ | _ => False end.
Print Assumptions C09_example.
