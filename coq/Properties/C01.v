(* C01  Accepted programs never get stuck at run time (progress).
   Proved: every outcome of the evaluator model is "still running", a value, or a term stuck at a
   redex of one of six classified kinds, and `stuck_reason` computes that kind. This is the oracle the
   check applies to every program the implementation accepts. The progress theorem proper
   (well typed => the kind is DivByZero) needs canonical forms, hence confluence, and is not claimed;
   for the implementation's own acceptance predicate it is refuted by the recorded findings (D7
   witness below; D9, D14 in KNOWN_FINDINGS.json). *)
From Coq Require Import List ZArith Bool.
Import ListNotations.
Require Import Gram.Model.Term Gram.Model.DeBruijn Gram.Model.Eval Gram.Spec.Cbv Gram.Proofs.CbvProofs.

Theorem C01_stuck_classified : forall t, step t = None -> is_value t = false ->
  exists E r k, ectx_ok E = true /\ t = plug E r /\ stuck_redex r k /\ stuck_reason t = Some k.
Proof. exact stuck_classified. Qed.
Check C01_stuck_classified : forall t, step t = None -> is_value t = false ->
  exists E r k, ectx_ok E = true /\ t = plug E r /\ stuck_redex r k /\ stuck_reason t = Some k.
Print Assumptions C01_stuck_classified.

Theorem C01_outcome_classified : forall f t,
  evaluate f t = None \/
  exists v, evaluate f t = Some v /\
    (is_value v = true \/
     exists E r k, ectx_ok E = true /\ v = plug E r /\ stuck_redex r k /\ stuck_reason v = Some k).
Proof. exact outcome_classified. Qed.
Check C01_outcome_classified : forall f t,
  evaluate f t = None \/
  exists v, evaluate f t = Some v /\
    (is_value v = true \/
     exists E r k, ectx_ok E = true /\ v = plug E r /\ stuck_redex r k /\ stuck_reason v = Some k).
Print Assumptions C01_outcome_classified.

(* the recorded finding D7 inside the model:  x = y + 1; y = 2; x  is stuck on a group variable *)
Theorem C01_progress_refuted_D7 :
  exists p, step p = None /\ is_value p = false /\ stuck_reason p = Some FreeVariable.
Proof. eexists. exact d7_witness. Qed.
Check C01_progress_refuted_D7 :
  exists p, step p = None /\ is_value p = false /\ stuck_reason p = Some FreeVariable.
Print Assumptions C01_progress_refuted_D7.
