(* C01  Accepted programs never get stuck at run time (progress).
   Proved: every outcome of the evaluator model is "still running", a value, or a term stuck at a
   redex of one of six classified kinds, and `stuck_reason` computes that kind. This is the oracle the
   check applies to every program the implementation accepts. The progress theorem proper
   (well typed => the kind is DivByZero) needs canonical forms, hence confluence, and is not claimed;
   for the implementation's own acceptance predicate it is refuted by the recorded findings (D7
   witness below; D9, D14 in KNOWN_FINDINGS.json). *)
From Coq Require Import List ZArith Bool.
Import ListNotations.
Require Import Gram.Model.Term Gram.Model.DeBruijn Gram.Model.Eval Gram.Spec.Cbv Gram.Proofs.CbvProofs.
Require Import Gram.Model.ModelB Gram.Spec.Typing Gram.Proofs.ConfluenceTyping Gram.Proofs.ConvConsistent Gram.Proofs.SafetyHF.
Require Gram.Proofs.ConfluenceEval Gram.Proofs.TcSoundHF.
Require Gram.Model.ParserPost Gram.Proofs.EvalEnvProofs Gram.Proofs.DefinitionOrder.
Require Gram.Proofs.AcyclicProofs Gram.Proofs.UnifyConsistent Gram.Proofs.TcSoundHoles Gram.Proofs.TcHolesOk Gram.Proofs.SafetyHoles.

Theorem C01_stuck_classified : forall t, step t = None -> is_value t = false ->
  exists E r k, ectx_ok E = true /\ t = plug E r /\ stuck_redex r k /\ stuck_reason t = Some k.
Proof. exact stuck_classified. Qed.
Check C01_stuck_classified : forall t, step t = None -> is_value t = false ->
  exists E r k, ectx_ok E = true /\ t = plug E r /\ stuck_redex r k /\ stuck_reason t = Some k.
Print Assumptions C01_stuck_classified.

Theorem C01_outcome_classified : forall f t,
  evaluate f t = None \/
  exists v, evaluate f t = Some v /\
    (is_value v = true \/
     exists E r k, ectx_ok E = true /\ v = plug E r /\ stuck_redex r k /\ stuck_reason v = Some k).
Proof. exact outcome_classified. Qed.
Check C01_outcome_classified : forall f t,
  evaluate f t = None \/
  exists v, evaluate f t = Some v /\
    (is_value v = true \/
     exists E r k, ectx_ok E = true /\ v = plug E r /\ stuck_redex r k /\ stuck_reason v = Some k).
Print Assumptions C01_outcome_classified.

(* the recorded finding D7 inside the model:  x = y + 1; y = 2; x  is stuck on a group variable *)
Theorem C01_progress_refuted_D7 :
  exists p, step p = None /\ is_value p = false /\ stuck_reason p = Some FreeVariable.
Proof. eexists. exact d7_witness. Qed.
Check C01_progress_refuted_D7 :
  exists p, step p = None /\ is_value p = false /\ stuck_reason p = Some FreeVariable.
Print Assumptions C01_progress_refuted_D7.

(* Progress IS a theorem where the recorded findings cannot occur: fully annotated (hole-free: no D9, D14, D19)
   programs without definition groups (no D7). Whatever the checker model accepts without a diagnostic evaluates -
   for every amount of fuel - to a value of the reported type, or to a term stuck on a division by zero, and to
   nothing else: soundness of the checker model (Proofs/TcSoundHF.v) composed with progress and preservation of the
   declarative system (Proofs/ConvConsistent.v, from confluence). With groups the typing rules themselves admit
   `x : int = x; x` (C01_typing_alone_admits_unproductive_groups): availability of definitions is the business of
   parse()'s definition-order check, which is where D7 lives. *)
Theorem C01_accepted_programs_are_safe : forall f t r g v,
  hole_free t = true -> ConfluenceEval.no_let t = true ->
  tcB f [] [] [] t = Some r -> b_errs r = [] ->
  evaluate g t = Some v ->
  exists T, TcSoundHF.zk (b_st r) (b_ty r) T /\ has_type [] v T /\ (is_value v = true \/ div_stuck v).
Proof. exact accepted_programs_are_safe. Qed.
Check C01_accepted_programs_are_safe : forall f t r g v,
  hole_free t = true -> ConfluenceEval.no_let t = true ->
  tcB f [] [] [] t = Some r -> b_errs r = [] ->
  evaluate g t = Some v ->
  exists T, TcSoundHF.zk (b_st r) (b_ty r) T /\ has_type [] v T /\ (is_value v = true \/ div_stuck v).
Print Assumptions C01_accepted_programs_are_safe.

Theorem C01_progress : forall t T, has_type [] t T -> hole_free t = true -> ConfluenceEval.no_let t = true ->
  is_value t = true \/ (exists t', step t = Some t') \/ div_stuck t.
Proof. exact progress_has_type. Qed.
Check C01_progress : forall t T, has_type [] t T -> hole_free t = true -> ConfluenceEval.no_let t = true ->
  is_value t = true \/ (exists t', step t = Some t') \/ div_stuck t.
Print Assumptions C01_progress.

Theorem C01_typing_alone_admits_unproductive_groups : ltac:(let T := type of group_progress_fails in exact T).
Proof. exact group_progress_fails. Qed.
Check C01_typing_alone_admits_unproductive_groups : has_type [] loop_group TInt /\ _ /\ _ /\ _ /\ stuck_reason loop_group = Some FreeVariable /\ _.
Print Assumptions C01_typing_alone_admits_unproductive_groups.

(* "A definition that is not yet available" (Proofs/DefinitionOrder.v), in the shape `~ KnownClass t -> P t`: `order_ok` /
   `order_ok_lazy` are executable corrected definition-order checks (from a computed definition no member of the group at
   or after it may be reachable, through value and non-value definitions alike); a closed program that passes never reads
   an empty cell in the reference interpreter and - by the agreement theorem of C02 - the evaluator model never stops on a
   group variable that has not been substituted yet. The strict check implies the modelled guard; the guard accepts the
   two D7 witnesses, the corrected checks reject them, and both interpreters are stuck on them. *)
Theorem C01_corrected_order_check_excludes_unavailable_definitions : forall t, EvalEnvProofs.bnd 0 t = true -> hole_free t = true -> DefinitionOrder.order_ok_lazy t = true ->
  forall f t', evaluate f t = Some t' -> stuck_reason t' <> Some FreeVariable.
Proof. exact DefinitionOrder.order_ok_lazy_evaluate. Qed.
Check C01_corrected_order_check_excludes_unavailable_definitions : forall t, EvalEnvProofs.bnd 0 t = true -> hole_free t = true -> DefinitionOrder.order_ok_lazy t = true ->
  forall f t', evaluate f t = Some t' -> stuck_reason t' <> Some FreeVariable.
Print Assumptions C01_corrected_order_check_excludes_unavailable_definitions.

Theorem C01_strict_order_check_implies_the_guard : forall t, hole_free t = true -> DefinitionOrder.order_ok t = true -> ParserPost.check_definitions t = ParserPost.CDOk 0.
Proof. exact DefinitionOrder.order_ok_check_definitions. Qed.
Check C01_strict_order_check_implies_the_guard : forall t, hole_free t = true -> DefinitionOrder.order_ok t = true -> ParserPost.check_definitions t = ParserPost.CDOk 0.
Print Assumptions C01_strict_order_check_implies_the_guard.

Theorem C01_D7_guard_accepts_checks_reject : ltac:(let T1 := type of DefinitionOrder.d7_guard_accepts in let T2 := type of DefinitionOrder.order_ok_rejects in let T3 := type of DefinitionOrder.d7_evaluate_stuck in exact (T1 /\ T2 /\ T3)).
Proof. exact (conj DefinitionOrder.d7_guard_accepts (conj DefinitionOrder.order_ok_rejects DefinitionOrder.d7_evaluate_stuck)). Qed.
Check C01_D7_guard_accepts_checks_reject : _ /\ _ /\ _.
Print Assumptions C01_D7_guard_accepts_checks_reject.

(* ... and WITH inferred annotations (Proofs/SafetyHoles.v): simply typed group-free programs whose binder annotations are
   omitted (`simple`), whenever neither instrumented event occurs while checking (hooks H1 / H3 silent): the accepted program,
   completed with any base type in the cells left unsolved, evaluates to a value of the reported type or stops on a division
   by zero. *)
Theorem C01_accepted_programs_with_inferred_annotations_are_safe : forall H f s t r v,
  TcHolesOk.simple t = true -> ConfluenceEval.no_let t = true ->
  TcHolesOk.J s -> TcSoundHoles.store_okM H s -> AcyclicProofs.acyclic s -> TcSoundHoles.wsM H 0 t ->
  TcSoundHoles.tcN f s [] [] t = Some r -> b_errs r = [] -> TcSoundHoles.base_ty v = true ->
  exists eu Tu,
    TcSoundHF.zk (UnifyConsistent.fill v (b_st r)) t eu /\ TcSoundHF.zk (UnifyConsistent.fill v (b_st r)) (b_ty r) Tu /\
    has_type [] eu Tu /\
    forall g w, evaluate g eu = Some w -> has_type [] w Tu /\ (is_value w = true \/ div_stuck w).
Proof. exact SafetyHoles.accepted_programs_with_inferred_annotations_are_safe. Qed.
Check C01_accepted_programs_with_inferred_annotations_are_safe : forall H f s t r v,
  TcHolesOk.simple t = true -> ConfluenceEval.no_let t = true ->
  TcHolesOk.J s -> TcSoundHoles.store_okM H s -> AcyclicProofs.acyclic s -> TcSoundHoles.wsM H 0 t ->
  TcSoundHoles.tcN f s [] [] t = Some r -> b_errs r = [] -> TcSoundHoles.base_ty v = true ->
  exists eu Tu,
    TcSoundHF.zk (UnifyConsistent.fill v (b_st r)) t eu /\ TcSoundHF.zk (UnifyConsistent.fill v (b_st r)) (b_ty r) Tu /\
    has_type [] eu Tu /\
    forall g w, evaluate g eu = Some w -> has_type [] w Tu /\ (is_value w = true \/ div_stuck w).
Print Assumptions C01_accepted_programs_with_inferred_annotations_are_safe.

