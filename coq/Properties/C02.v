(* C02  Running a program yields the value the language semantics prescribes.
   The evaluator model `step` (mirror of src/evaluator.rs) IS the call-by-value relation `cbv`
   of Spec/Cbv.v (evaluation contexts + redexes). *)
From Coq Require Import List ZArith Bool.
Import ListNotations.
Require Import Gram.Model.Term Gram.Model.DeBruijn Gram.Model.Eval Gram.Spec.Cbv Gram.Proofs.CbvProofs.

Theorem C02_step_iff_cbv : forall t t', step t = Some t' <-> cbv t t'.
Proof. exact step_iff_cbv. Qed.
Check C02_step_iff_cbv : forall t t', step t = Some t' <-> cbv t t'.
Print Assumptions C02_step_iff_cbv.

Theorem C02_cbv_deterministic : forall t a b, cbv t a -> cbv t b -> a = b.
Proof. exact cbv_deterministic. Qed.
Check C02_cbv_deterministic : forall t a b, cbv t a -> cbv t b -> a = b.
Print Assumptions C02_cbv_deterministic.

Theorem C02_values_do_not_step : forall v, is_value v = true -> step v = None.
Proof. exact value_no_step. Qed.
Check C02_values_do_not_step : forall v, is_value v = true -> step v = None.
Print Assumptions C02_values_do_not_step.

(* arithmetic is exact: the redex rule for a binary operator on literals is Z arithmetic with
   truncating division, undefined only for a zero divisor *)
Theorem C02_arith_exact : forall o x y,
  arith o x y =
  match o with
  | OSum => Some (TLit (x + y)) | ODiff => Some (TLit (x - y)) | OProd => Some (TLit (x * y))
  | OQuot => if (y =? 0)%Z then None else Some (TLit (Z.quot x y))
  | OLt => Some (if (x <? y)%Z then TTrue else TFalse)
  | OLe => Some (if (x <=? y)%Z then TTrue else TFalse)
  | OEq => Some (if (x =? y)%Z then TTrue else TFalse)
  | OGt => Some (if (x >? y)%Z then TTrue else TFalse)
  | OGe => Some (if (x >=? y)%Z then TTrue else TFalse)
  end.
Proof. exact (fun o x y => eq_refl). Qed.
Check C02_arith_exact : forall o x y, arith o x y = _.
Print Assumptions C02_arith_exact.

(* non-vacuity: recursive and mutually recursive groups run to their values inside Coq *)
Theorem C02_fact5 : evaluate 200 fact_prog = Some (TLit 120).
Proof. exact fact5. Qed.
Check C02_fact5 : evaluate 200 fact_prog = Some (TLit 120).
Print Assumptions C02_fact5.

Theorem C02_even7 : evaluate 400 evenodd = Some TFalse.
Proof. exact even7. Qed.
Check C02_even7 : evaluate 400 evenodd = Some TFalse.
Print Assumptions C02_even7.
