(* C02  Running a program yields the value the language semantics prescribes.
   The evaluator model `step` (mirror of src/evaluator.rs) IS the call-by-value relation `cbv`
   of Spec/Cbv.v (evaluation contexts + redexes). *)
From Coq Require Import List ZArith Bool.
Import ListNotations.
Require Import Gram.Model.Term Gram.Model.DeBruijn Gram.Model.Eval Gram.Spec.Cbv Gram.Proofs.CbvProofs Gram.Spec.EvalEnv Gram.Proofs.EvalEnvProofs.
Require Gram.Proofs.EvalEnvGroups.

Theorem C02_step_iff_cbv : forall t t', step t = Some t' <-> cbv t t'.
Proof. exact step_iff_cbv. Qed.
Check C02_step_iff_cbv : forall t t', step t = Some t' <-> cbv t t'.
Print Assumptions C02_step_iff_cbv.

Theorem C02_cbv_deterministic : forall t a b, cbv t a -> cbv t b -> a = b.
Proof. exact cbv_deterministic. Qed.
Check C02_cbv_deterministic : forall t a b, cbv t a -> cbv t b -> a = b.
Print Assumptions C02_cbv_deterministic.

Theorem C02_values_do_not_step : forall v, is_value v = true -> step v = None.
Proof. exact value_no_step. Qed.
Check C02_values_do_not_step : forall v, is_value v = true -> step v = None.
Print Assumptions C02_values_do_not_step.

(* arithmetic is exact: the redex rule for a binary operator on literals is Z arithmetic with
   truncating division, undefined only for a zero divisor *)
Theorem C02_arith_exact : forall o x y,
  arith o x y =
  match o with
  | OSum => Some (TLit (x + y)) | ODiff => Some (TLit (x - y)) | OProd => Some (TLit (x * y))
  | OQuot => if (y =? 0)%Z then None else Some (TLit (Z.quot x y))
  | OLt => Some (if (x <? y)%Z then TTrue else TFalse)
  | OLe => Some (if (x <=? y)%Z then TTrue else TFalse)
  | OEq => Some (if (x =? y)%Z then TTrue else TFalse)
  | OGt => Some (if (x >? y)%Z then TTrue else TFalse)
  | OGe => Some (if (x >=? y)%Z then TTrue else TFalse)
  end.
Proof. exact (fun o x y => eq_refl). Qed.
Check C02_arith_exact : forall o x y, arith o x y = _.
Print Assumptions C02_arith_exact.

(* non-vacuity: recursive and mutually recursive groups run to their values inside Coq *)
Theorem C02_fact5 : evaluate 200 fact_prog = Some (TLit 120).
Proof. exact fact5. Qed.
Check C02_fact5 : evaluate 200 fact_prog = Some (TLit 120).
Print Assumptions C02_fact5.

Theorem C02_even7 : evaluate 400 evenodd = Some TFalse.
Proof. exact even7. Qed.
Check C02_even7 : evaluate 400 evenodd = Some TFalse.
Print Assumptions C02_even7.

(* The independent reference interpreter (Spec/EvalEnv.v: environments, closures, an append-only store of
   cells - written without substitution, shifting or opening) and the evaluator model agree BY PROOF on every
   closed hole-free program whose groups are single value definitions (recursive functions included; `okt`):
   they terminate together, with the same observable value or with a stuck term of the same reason, and
   diverge together (Proofs/EvalEnvProofs.v: a simulation through an unloading relation with ghost reference
   terms for the cyclic store, and the converse by decomposition along evaluation contexts). General groups
   (several definitions, computed definitions) are compared by running both (stream `evalenv`). *)
Theorem C02_interpreters_agree : forall t, okt 0 t ->
  ((exists f, run_env f t <> RFuel) <-> (exists f t', evaluate f t = Some t')) /\
  (forall f1 f2 t', evaluate f1 t = Some t' ->
     match run_env f2 t with
     | ROk v => (exists G, vrel G v t') /\ is_value t' = true /\ obs_of_term t' = Some (obs_of_value v)
     | RStuck k => is_value t' = false /\ stuck_reason t' = Some k
     | RFuel => True
     end).
Proof. exact interpreters_agree. Qed.
Check C02_interpreters_agree : forall t, okt 0 t ->
  ((exists f, run_env f t <> RFuel) <-> (exists f t', evaluate f t = Some t')) /\
  (forall f1 f2 t', evaluate f1 t = Some t' ->
     match run_env f2 t with
     | ROk v => (exists G, vrel G v t') /\ is_value t' = true /\ obs_of_term t' = Some (obs_of_value v)
     | RStuck k => is_value t' = false /\ stuck_reason t' = Some k
     | RFuel => True
     end).
Print Assumptions C02_interpreters_agree.

Theorem C02_interpreters_agree_obs : forall t o, okt 0 t ->
  ((exists f v, run_env f t = ROk v /\ obs_of_value v = o) <->
   (exists f t', evaluate f t = Some t' /\ is_value t' = true /\ obs_of_term t' = Some o)).
Proof. exact interpreters_agree_obs. Qed.
Check C02_interpreters_agree_obs : forall t o, okt 0 t ->
  ((exists f v, run_env f t = ROk v /\ obs_of_value v = o) <->
   (exists f t', evaluate f t = Some t' /\ is_value t' = true /\ obs_of_term t' = Some o)).
Print Assumptions C02_interpreters_agree_obs.

Theorem C02_interpreters_agree_stuck : forall t k, okt 0 t ->
  ((exists f, run_env f t = RStuck k) <->
   (exists f t', evaluate f t = Some t' /\ is_value t' = false /\ stuck_reason t' = Some k)).
Proof. exact interpreters_agree_stuck. Qed.
Check C02_interpreters_agree_stuck : forall t k, okt 0 t ->
  ((exists f, run_env f t = RStuck k) <->
   (exists f t', evaluate f t = Some t' /\ is_value t' = false /\ stuck_reason t' = Some k)).
Print Assumptions C02_interpreters_agree_stuck.

Theorem C02_interpreters_diverge_together : forall t, okt 0 t ->
  ((forall f, run_env f t = RFuel) <-> (forall f, evaluate f t = None)).
Proof. exact interpreters_diverge_together. Qed.
Check C02_interpreters_diverge_together : forall t, okt 0 t ->
  ((forall f, run_env f t = RFuel) <-> (forall f, evaluate f t = None)).
Print Assumptions C02_interpreters_diverge_together.

(* arithmetic, comparisons, negation and conditionals on literals: both interpreters have terminated within
   `gsize t` steps with the same literal / boolean, or stuck for the same reason *)
Theorem C02_ground_agreement : forall t, ground t = true -> forall f, gsize t < f ->
    (exists v, ground_value v = true /\ run_env f t = ROk v /\ evaluate f t = Some (gterm v)) \/
    (exists k t', run_env f t = RStuck k /\ evaluate f t = Some t' /\ is_value t' = false /\ stuck_reason t' = Some k).
Proof. exact ground_agreement. Qed.
Check C02_ground_agreement : forall t, ground t = true -> forall f, gsize t < f ->
    (exists v, ground_value v = true /\ run_env f t = ROk v /\ evaluate f t = Some (gterm v)) \/
    (exists k t', run_env f t = RStuck k /\ evaluate f t = Some t' /\ is_value t' = false /\ stuck_reason t' = Some k).
Print Assumptions C02_ground_agreement.

(* more fuel never changes an answer of the reference interpreter (all terms, groups included) *)
Theorem C02_eval_env_mono : forall f f' s env t s' r,
  f <= f' -> eval_env f s env t = (s', r) -> r <> RFuel -> eval_env f' s env t = (s', r).
Proof. exact eval_env_mono. Qed.
Check C02_eval_env_mono : forall f f' s env t s' r,
  f <= f' -> eval_env f s env t = (s', r) -> r <> RFuel -> eval_env f' s env t = (s', r).
Print Assumptions C02_eval_env_mono.

(* non-vacuity: the recursive factorial is in the fragment, the reference interpreter computes 120, and the
   theorem (not computation) gives that the evaluator model reaches the literal 120 *)
Theorem C02_factorial_agree : okt 0 fact_prog /\ run_env 40 fact_prog = ROk (VLit 120) /\ exists f, evaluate f fact_prog = Some (TLit 120).
Proof. exact (conj fact_prog_okt (conj fact_prog_run_env fact_prog_agree)). Qed.
Check C02_factorial_agree : okt 0 fact_prog /\ run_env 40 fact_prog = ROk (VLit 120) /\ exists f, evaluate f fact_prog = Some (TLit 120).
Print Assumptions C02_factorial_agree.

(* ... and on EVERY closed hole-free program (Proofs/EvalEnvGroups.v): groups of any number of definitions, computed
   definitions evaluated in place, mutual recursion, forward references (the recorded finding D7's witness
   `x = y + 1; y = 2; x` is stuck for the same reason on both sides). The family of successive unfoldings of a cell
   of the cyclic store is captured by mutually inductive relations `gref` / `gvrel`, no step-indexing needed. *)
Theorem C02_interpreters_agree_on_all_programs : forall t, EvalEnvGroups.okt' t ->
  ((exists f, run_env f t <> RFuel) <-> (exists f t', evaluate f t = Some t')) /\
  (forall f1 f2 t', evaluate f1 t = Some t' ->
     match run_env f2 t with
     | ROk v => (exists s', EvalEnvGroups.gvrel s' [] v t') /\ is_value t' = true /\ obs_of_term t' = Some (obs_of_value v)
     | RStuck k => is_value t' = false /\ stuck_reason t' = Some k
     | RFuel => True
     end).
Proof. exact EvalEnvGroups.interpreters_agree_G3. Qed.
Check C02_interpreters_agree_on_all_programs : forall t, EvalEnvGroups.okt' t ->
  ((exists f, run_env f t <> RFuel) <-> (exists f t', evaluate f t = Some t')) /\
  (forall f1 f2 t', evaluate f1 t = Some t' ->
     match run_env f2 t with
     | ROk v => (exists s', EvalEnvGroups.gvrel s' [] v t') /\ is_value t' = true /\ obs_of_term t' = Some (obs_of_value v)
     | RStuck k => is_value t' = false /\ stuck_reason t' = Some k
     | RFuel => True
     end).
Print Assumptions C02_interpreters_agree_on_all_programs.

Theorem C02_same_literal_on_all_programs : forall t z, EvalEnvGroups.okt' t ->
  ((exists f, run_env f t = ROk (VLit z)) <-> (exists f, evaluate f t = Some (TLit z))).
Proof. exact EvalEnvGroups.interpreters_agree_G3_lit. Qed.
Check C02_same_literal_on_all_programs : forall t z, EvalEnvGroups.okt' t ->
  ((exists f, run_env f t = ROk (VLit z)) <-> (exists f, evaluate f t = Some (TLit z))).
Print Assumptions C02_same_literal_on_all_programs.

Theorem C02_same_stuck_reason_on_all_programs : forall t k, EvalEnvGroups.okt' t ->
  ((exists f, run_env f t = RStuck k) <->
   (exists f t', evaluate f t = Some t' /\ is_value t' = false /\ stuck_reason t' = Some k)).
Proof. exact EvalEnvGroups.interpreters_agree_G3_stuck. Qed.
Check C02_same_stuck_reason_on_all_programs : forall t k, EvalEnvGroups.okt' t ->
  ((exists f, run_env f t = RStuck k) <->
   (exists f t', evaluate f t = Some t' /\ is_value t' = false /\ stuck_reason t' = Some k)).
Print Assumptions C02_same_stuck_reason_on_all_programs.

Theorem C02_diverge_together_on_all_programs : forall t, EvalEnvGroups.okt' t ->
  ((forall f, run_env f t = RFuel) <-> (forall f, evaluate f t = None)).
Proof. exact EvalEnvGroups.interpreters_diverge_together_G3. Qed.
Check C02_diverge_together_on_all_programs : forall t, EvalEnvGroups.okt' t ->
  ((forall f, run_env f t = RFuel) <-> (forall f, evaluate f t = None)).
Print Assumptions C02_diverge_together_on_all_programs.

Theorem C02_okt'_is_closed_and_hole_free : forall t, EvalEnvGroups.okt' t <-> (bnd 0 t = true /\ hole_free t = true).
Proof. intros t. reflexivity. Qed.
Check C02_okt'_is_closed_and_hole_free : forall t, EvalEnvGroups.okt' t <-> (bnd 0 t = true /\ hole_free t = true).
Print Assumptions C02_okt'_is_closed_and_hole_free.

