(* C10  Comments, spacing and line layout do not change a program's meaning.
   Proved here: the two generated line-break tables of tokenizer.rs are exactly the sets the
   property describes (tokens that can end / start an expression, `;` counting as both), and for
   EVERY input the tokens of a successful tokenization obey the line-break rule (`layout_ok`: a
   terminator stands between tokens a and b exactly when the text between them contains a line
   break, a can end an expression and b can start one; none leads, trails or repeats) - so comments,
   blanks and the number or placement of line breaks elsewhere cannot influence the token list beyond
   positions. `layout_ok` is also evaluated on the implementation's tokens, and the re-layout
   relation is checked on the implementation directly. *)
From Coq Require Import List ZArith NArith Bool.
Import ListNotations.
Require Import Gram.Model.Token Gram.Gen.TokenTables Gram.Model.Tokenizer Gram.Spec.TokenSpec Gram.Proofs.TokenizerProofs Gram.Proofs.PartitionProofs Gram.Proofs.LayoutProofs.

Theorem C10_layout : forall gend cs ts,
  Forall ch_wf cs -> tokenize gend cs = Ok ts -> layout_ok cs ts = true.
Proof. exact tokenize_layout. Qed.
Check C10_layout : forall gend cs ts, Forall ch_wf cs -> tokenize gend cs = Ok ts -> layout_ok cs ts = true.
Print Assumptions C10_layout.

(* non-vacuity: a text with a comment, a line break that terminates and one that does not *)
Example C10_layout_example :
  let cs := map asc [120; 32; 35; 99; 10; 43; 10; 121; 10; 122; 10]%N in   (* "x #c\n+\ny\nz\n" *)
  Forall ch_wf cs /\
  match tokenize (fun i => i + 1) cs with
  | Ok ts => map (fun t => kind_of (tv t)) ts = [KIdentifier; KPlus; KIdentifier; KLineBreak; KIdentifier]
  | _ => False end.
Proof.
  split; [repeat constructor; apply asc_wf; reflexivity | vm_compute; reflexivity].
Qed.

Theorem C10_linebreak_tables_are_spec :
  forallb (fun k => Bool.eqb (kind_lookup ends_table k) (in_kinds E_spec k)) all_kinds = true /\
  forallb (fun k => Bool.eqb (kind_lookup starts_table k) (in_kinds S_spec k)) all_kinds = true.
Proof. exact linebreak_tables_are_spec. Qed.
Check C10_linebreak_tables_are_spec :
  forallb (fun k => Bool.eqb (kind_lookup ends_table k) (in_kinds E_spec k)) all_kinds = true /\
  forallb (fun k => Bool.eqb (kind_lookup starts_table k) (in_kinds S_spec k)) all_kinds = true.
Print Assumptions C10_linebreak_tables_are_spec.

Theorem C10_no_linebreak_from_tables :
  forallb (fun p => negb (tkind_eqb (snd p) KLineBreak)) symbol_table = true /\
  forallb (fun p => negb (tkind_eqb (snd (snd p)) KLineBreak) &&
                    forallb (fun q => negb (tkind_eqb (snd q) KLineBreak)) (fst (snd p))) pair_table = true /\
  forallb (fun p => negb (tkind_eqb (snd p) KLineBreak)) keyword_table = true /\
  kind_lookup ends_table KLineBreak = false.
Proof. exact tables_no_linebreak. Qed.
Check C10_no_linebreak_from_tables : _ /\ _ /\ _ /\ kind_lookup ends_table KLineBreak = false.
Print Assumptions C10_no_linebreak_from_tables.
