(* C10  Comments, spacing and line layout do not change a program's meaning.
   Proved here: the two generated line-break tables of tokenizer.rs are exactly the sets the
   property describes (tokens that can end / start an expression, `;` counting as both). The layout
   characterisation (`layout_ok`) is evaluated on the implementation's tokens, and the re-layout
   relation is checked on the implementation directly. *)
From Coq Require Import List ZArith NArith Bool.
Import ListNotations.
Require Import Gram.Model.Token Gram.Gen.TokenTables Gram.Model.Tokenizer Gram.Spec.TokenSpec Gram.Proofs.TokenizerProofs.

Definition C10_layout_statement : Prop :=
  forall gend cs ts, tokenize gend cs = Ok ts -> layout_ok cs ts = true.

Theorem C10_linebreak_tables_are_spec :
  forallb (fun k => Bool.eqb (kind_lookup ends_table k) (in_kinds E_spec k)) all_kinds = true /\
  forallb (fun k => Bool.eqb (kind_lookup starts_table k) (in_kinds S_spec k)) all_kinds = true.
Proof. exact linebreak_tables_are_spec. Qed.
Check C10_linebreak_tables_are_spec :
  forallb (fun k => Bool.eqb (kind_lookup ends_table k) (in_kinds E_spec k)) all_kinds = true /\
  forallb (fun k => Bool.eqb (kind_lookup starts_table k) (in_kinds S_spec k)) all_kinds = true.
Print Assumptions C10_linebreak_tables_are_spec.

Theorem C10_no_linebreak_from_tables :
  forallb (fun p => negb (tkind_eqb (snd p) KLineBreak)) symbol_table = true /\
  forallb (fun p => negb (tkind_eqb (snd (snd p)) KLineBreak) &&
                    forallb (fun q => negb (tkind_eqb (snd q) KLineBreak)) (fst (snd p))) pair_table = true /\
  forallb (fun p => negb (tkind_eqb (snd p) KLineBreak)) keyword_table = true /\
  kind_lookup ends_table KLineBreak = false.
Proof. exact tables_no_linebreak. Qed.
Check C10_no_linebreak_from_tables : _ /\ _ /\ _ /\ kind_lookup ends_table KLineBreak = false.
Print Assumptions C10_no_linebreak_from_tables.
