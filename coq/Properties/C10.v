(* C10  Comments, spacing and line layout do not change a program's meaning.
   Proved here: the two generated line-break tables of tokenizer.rs are exactly the sets the
   property describes (tokens that can end / start an expression, `;` counting as both), and for
   EVERY input the tokens of a successful tokenization obey the line-break rule (`layout_ok`: a
   terminator stands between tokens a and b exactly when the text between them contains a line
   break, a can end an expression and b can start one; none leads, trails or repeats) - so comments,
   blanks and the number or placement of line breaks elsewhere cannot influence the token list beyond
   positions. `layout_ok` is also evaluated on the implementation's tokens, and the re-layout
   relation is checked on the implementation directly. *)
From Coq Require Import List ZArith NArith Bool.
Import ListNotations.
Require Import Gram.Model.Token Gram.Gen.TokenTables Gram.Model.Tokenizer Gram.Spec.TokenSpec Gram.Proofs.TokenizerProofs Gram.Proofs.PartitionProofs Gram.Proofs.LayoutProofs.
Require Gram.Model.Parser Gram.Model.ParserPost Gram.Proofs.ReassocProofs Gram.Proofs.LayoutParens.

Theorem C10_layout : forall gend cs ts,
  Forall ch_wf cs -> tokenize gend cs = Ok ts -> layout_ok cs ts = true.
Proof. exact tokenize_layout. Qed.
Check C10_layout : forall gend cs ts, Forall ch_wf cs -> tokenize gend cs = Ok ts -> layout_ok cs ts = true.
Print Assumptions C10_layout.

(* non-vacuity: a text with a comment, a line break that terminates and one that does not *)
Example C10_layout_example :
  let cs := map asc [120; 32; 35; 99; 10; 43; 10; 121; 10; 122; 10]%N in   (* "x #c\n+\ny\nz\n" *)
  Forall ch_wf cs /\
  match tokenize (fun i => i + 1) cs with
  | Ok ts => map (fun t => kind_of (tv t)) ts = [KIdentifier; KPlus; KIdentifier; KLineBreak; KIdentifier]
  | _ => False end.
Proof.
  split; [repeat constructor; apply asc_wf; reflexivity | vm_compute; reflexivity].
Qed.

Theorem C10_linebreak_tables_are_spec :
  forallb (fun k => Bool.eqb (kind_lookup ends_table k) (in_kinds E_spec k)) all_kinds = true /\
  forallb (fun k => Bool.eqb (kind_lookup starts_table k) (in_kinds S_spec k)) all_kinds = true.
Proof. exact linebreak_tables_are_spec. Qed.
Check C10_linebreak_tables_are_spec :
  forallb (fun k => Bool.eqb (kind_lookup ends_table k) (in_kinds E_spec k)) all_kinds = true /\
  forallb (fun k => Bool.eqb (kind_lookup starts_table k) (in_kinds S_spec k)) all_kinds = true.
Print Assumptions C10_linebreak_tables_are_spec.

Theorem C10_no_linebreak_from_tables :
  forallb (fun p => negb (tkind_eqb (snd p) KLineBreak)) symbol_table = true /\
  forallb (fun p => negb (tkind_eqb (snd (snd p)) KLineBreak) &&
                    forallb (fun q => negb (tkind_eqb (snd q) KLineBreak)) (fst (snd p))) pair_table = true /\
  forallb (fun p => negb (tkind_eqb (snd p) KLineBreak)) keyword_table = true /\
  kind_lookup ends_table KLineBreak = false.
Proof. exact tables_no_linebreak. Qed.
Check C10_no_linebreak_from_tables : _ /\ _ /\ _ /\ kind_lookup ends_table KLineBreak = false.
Print Assumptions C10_no_linebreak_from_tables.

(* "A separating line break is interchangeable with `;`", at the parser (Proofs/LayoutParens.v): two token lists that agree
   token by token except that a terminator may have either terminator kind are accepted together, and the trees built -
   raw and re-associated - are equal (by accepted-iff-sentence, uniqueness of the derivation tree and the fact that no
   production of the generated grammar names a particular terminator kind). *)
Theorem C10_terminators_interchangeable_acceptance : forall toks toks' memo, LayoutParens.layout_sim toks toks' ->
  ((exists t, fst (fst (Parser.parse_stage1 toks memo)) = Parser.S1Tree t) <-> (exists t, fst (fst (Parser.parse_stage1 toks' memo)) = Parser.S1Tree t)).
Proof. exact LayoutParens.layout_acceptance. Qed.
Check C10_terminators_interchangeable_acceptance : forall toks toks' memo, LayoutParens.layout_sim toks toks' ->
  ((exists t, fst (fst (Parser.parse_stage1 toks memo)) = Parser.S1Tree t) <-> (exists t, fst (fst (Parser.parse_stage1 toks' memo)) = Parser.S1Tree t)).
Print Assumptions C10_terminators_interchangeable_acceptance.

Theorem C10_terminators_interchangeable_tree : forall toks toks' memo raw m s raw' m' s', LayoutParens.layout_sim toks toks' ->
  Parser.parse_stage1 toks memo = (Parser.S1Tree raw, m, s) -> Parser.parse_stage1 toks' memo = (Parser.S1Tree raw', m', s') ->
  ReassocProofs.gstrip raw = ReassocProofs.gstrip raw' /\ ReassocProofs.strip (ParserPost.reassociate raw) = ReassocProofs.strip (ParserPost.reassociate raw').
Proof. exact LayoutParens.layout_same_tree. Qed.
Check C10_terminators_interchangeable_tree : forall toks toks' memo raw m s raw' m' s', LayoutParens.layout_sim toks toks' ->
  Parser.parse_stage1 toks memo = (Parser.S1Tree raw, m, s) -> Parser.parse_stage1 toks' memo = (Parser.S1Tree raw', m', s') ->
  ReassocProofs.gstrip raw = ReassocProofs.gstrip raw' /\ ReassocProofs.strip (ParserPost.reassociate raw) = ReassocProofs.strip (ParserPost.reassociate raw').
Print Assumptions C10_terminators_interchangeable_tree.

