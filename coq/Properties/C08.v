(* C08  Every variable occurrence is bound to the right binder.
   The scoping discipline is the stack-of-names function `scope_spec` (Spec/ScopeSpec.v). Proved for
   every tree and every token list (Proofs/ScopeProofs.v): the mirror of resolve_variables - a
   name->depth map with insert / overwrite / remove bookkeeping and an error counter - reports no
   error exactly when the specification is defined, then builds exactly the specification's term
   (same indices, same fresh holes) and leaves its map as it found it; hence the mirror of parse()
   accepts a syntactically accepted tree only with the specification's term, and always when the
   specification is defined and the definition-order check passes. That the mirror is parser.rs is
   decided by the C08 stream (extracted specification and mirror against the implementation on
   generated programs: sibling scopes re-using names, nested groups, perturbations that unbind or
   shadow a name). The closed computations below pin what the specification says on the
   characteristic cases. *)
From Coq Require Import List ZArith NArith Bool.
Import ListNotations.
Require Import Gram.Model.Term Gram.Model.Token Gram.Model.Grammar Gram.Model.Parser Gram.Model.ParserPost Gram.Spec.ScopeSpec Gram.Proofs.ScopeProofs.

Theorem C08_resolve_is_scope_spec : forall r,
  match scope_spec r with
  | Some t => rerrs (snd (resolve (S (psize r)) r 0 [] s0)) = 0 /\ fst (fst (resolve (S (psize r)) r 0 [] s0)) = t
  | None => 0 < rerrs (snd (resolve (S (psize r)) r 0 [] s0))
  end.
Proof. exact resolve_is_spec. Qed.
Check C08_resolve_is_scope_spec : forall r,
  match scope_spec r with
  | Some t => rerrs (snd (resolve (S (psize r)) r 0 [] s0)) = 0 /\ fst (fst (resolve (S (psize r)) r 0 [] s0)) = t
  | None => 0 < rerrs (snd (resolve (S (psize r)) r 0 [] s0))
  end.
Print Assumptions C08_resolve_is_scope_spec.

Theorem C08_accepted_term_is_the_specified_one : forall toks tree t ns,
  syntax_tree toks = Some tree -> fst (fst (parse_top toks true [])) = POk t ns ->
  scope_spec tree = Some t /\ check_definitions t = CDOk 0.
Proof. exact parse_top_scope_sound. Qed.
Check C08_accepted_term_is_the_specified_one : forall toks tree t ns,
  syntax_tree toks = Some tree -> fst (fst (parse_top toks true [])) = POk t ns ->
  scope_spec tree = Some t /\ check_definitions t = CDOk 0.
Print Assumptions C08_accepted_term_is_the_specified_one.

Theorem C08_specified_programs_are_accepted : forall toks tree t,
  syntax_tree toks = Some tree -> scope_spec tree = Some t -> check_definitions t = CDOk 0 ->
  exists ns, fst (fst (parse_top toks true [])) = POk t ns.
Proof. exact parse_top_scope_complete. Qed.
Check C08_specified_programs_are_accepted : forall toks tree t,
  syntax_tree toks = Some tree -> scope_spec tree = Some t -> check_definitions t = CDOk 0 ->
  exists ns, fst (fst (parse_top toks true [])) = POk t ns.
Print Assumptions C08_specified_programs_are_accepted.

Definition T (k : tkind) : ptok := {| pk := k; ps := 0; pe := 0; pname := []; pz := 0 |}.
Definition I (c : N) : ptok := {| pk := KIdentifier; ps := 0; pe := 0; pname := [c]; pz := 0 |}.
Definition L (z : Z) : ptok := {| pk := KIntegerLiteral; ps := 0; pe := 0; pname := []; pz := z |}.
Definition spec_of (toks : list ptok) : option term :=
  match syntax_tree toks with Some t => scope_spec t | None => None end.
Definition impl_of (toks : list ptok) : presult := fst (fst (parse_top toks true [])).
Notation x := 120%N. Notation y := 121%N. Notation us := 95%N.

(* sibling scopes may re-use a name:  (y = 1; y) + (y = 2; y) *)
Theorem C08_sibling_scopes :
  let p := [T KLeftParen; I y; T KEquals; L 1; T KSemicolon; I y; T KRightParen; T KPlus;
            T KLeftParen; I y; T KEquals; L 2; T KSemicolon; I y; T KRightParen] in
  spec_of p = Some (TBin OSum (TLet [(THole 0 1, TLit 1)] (TVar 0)) (TLet [(THole 1 1, TLit 2)] (TVar 0)))
  /\ impl_of p = POk (TBin OSum (TLet [(THole 0 1, TLit 1)] (TVar 0)) (TLet [(THole 1 1, TLit 2)] (TVar 0))) [[y]; [y]; [y]; [y]].
Proof. vm_compute. split; reflexivity. Qed.
Check C08_sibling_scopes : let p := _ in spec_of p = Some _ /\ impl_of p = POk _ _.
Print Assumptions C08_sibling_scopes.

(* re-binding a name that is in scope is rejected:  x => x => x ; an unbound name is rejected:  x => y *)
Theorem C08_shadow_and_unbound_rejected :
  spec_of [I x; T KThickArrow; I x; T KThickArrow; I x] = None /\
  impl_of [I x; T KThickArrow; I x; T KThickArrow; I x] = PErr 1 /\
  spec_of [I x; T KThickArrow; I y] = None /\ impl_of [I x; T KThickArrow; I y] = PErr 1.
Proof. vm_compute. repeat split; reflexivity. Qed.
Check C08_shadow_and_unbound_rejected : _ /\ _ /\ _ /\ _.
Print Assumptions C08_shadow_and_unbound_rejected.

(* `_` never binds, and used as an expression it is a fresh hole:  _ => _ => _ *)
Theorem C08_placeholder :
  spec_of [I us; T KThickArrow; I us; T KThickArrow; I us] = Some (TLam false (THole 0 0) (TLam false (THole 1 0) (THole 2 0)))
  /\ impl_of [I us; T KThickArrow; I us; T KThickArrow; I us] = POk (TLam false (THole 0 0) (TLam false (THole 1 0) (THole 2 0))) [[us]; [us]].
Proof. vm_compute. split; reflexivity. Qed.
Check C08_placeholder : _ /\ _.
Print Assumptions C08_placeholder.

(* all definitions of a group scope over every annotation and definition:  x : y = y; y = x; x *)
Theorem C08_group_scope :
  spec_of [I x; T KColon; I y; T KEquals; I y; T KSemicolon; I y; T KEquals; I x; T KSemicolon; I x]
  = Some (TLet [(TVar 0, TVar 0); (THole 0 1, TVar 1)] (TVar 1)).
Proof. vm_compute. reflexivity. Qed.
Check C08_group_scope : spec_of _ = Some (TLet [(TVar 0, TVar 0); (THole 0 1, TVar 1)] (TVar 1)).
Print Assumptions C08_group_scope.
