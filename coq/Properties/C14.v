(* C14  gram handles every input without crashing and reports failure faithfully.
   Proved for the models: the tokenizer never reaches its panic site and is a structural recursion
   on the input (so it terminates); a failing tokenizer or parser model returns a non-empty error
   list; the parser model runs on explicit fuel proportional to the input; and, for every token
   list, the mirror of parse() never reaches a panic site: a tree that contains an error node always
   carries an error factory, so it never reaches the re-association passes ([ref:error_check]), and
   check_definitions never meets a hole with a non-zero shift (C14_parse_never_panics); and the
   linear fuel always suffices, i.e. the parser model terminates on every token list
   (C14_parse_terminates, from the absence of left recursion in the generated skeleton). First step
   into the checker: what parse() accepts is well scoped, and on a well-scoped term the Model B
   checker never reaches its typing-context lookup panic site (C14_checker_lookup_in_bounds). Panics, aborts and the
   process-level contract of the real binary are explored by the library and CLI streams. *)
From Coq Require Import List ZArith NArith Bool Arith.
Import ListNotations.
Require Import Gram.Model.Term Gram.Model.Token Gram.Gen.TokenTables Gram.Model.Tokenizer Gram.Proofs.TokenizerProofs.
Require Import Gram.Model.Grammar Gram.Model.Parser Gram.Model.ParserPost Gram.Proofs.ContractProofs Gram.Proofs.PanicProofs Gram.Proofs.PackratProofs.
Require Import Gram.Model.ModelB Gram.Spec.ScopeSpec Gram.Proofs.ScopedProofs Gram.Proofs.ScopeStore.
Require Gram.Proofs.TcSoundHoles Gram.Proofs.TcBounds.

Theorem C14_parse_terminates : forall toks memo ctx, fst (fst (parse_top toks memo ctx)) <> POutOfFuel.
Proof. exact parse_top_within_fuel. Qed.
Check C14_parse_terminates : forall toks memo ctx, fst (fst (parse_top toks memo ctx)) <> POutOfFuel.
Print Assumptions C14_parse_terminates.

Theorem C14_parse_never_panics : forall toks memo ctx, fst (fst (parse_top toks memo ctx)) <> PPanic.
Proof. exact parse_top_never_panics. Qed.
Check C14_parse_never_panics : forall toks memo ctx, fst (fst (parse_top toks memo ctx)) <> PPanic.
Print Assumptions C14_parse_never_panics.

Theorem C14_tokenize_no_panic : forall gend cs, tokenize gend cs <> Panic.
Proof. exact tokenize_no_panic. Qed.
Check C14_tokenize_no_panic : forall gend cs, tokenize gend cs <> Panic.
Print Assumptions C14_tokenize_no_panic.

Theorem C14_tokenize_errors_nonempty : forall gend cs es, tokenize gend cs = Err es -> es <> [].
Proof. exact tokenize_errors_nonempty. Qed.
Check C14_tokenize_errors_nonempty : forall gend cs es, tokenize gend cs = Err es -> es <> [].
Print Assumptions C14_tokenize_errors_nonempty.

Theorem C14_parse_errors_nonempty : forall toks memo ctx n, fst (fst (parse_top toks memo ctx)) = PErr n -> n <> 0.
Proof. exact parse_errors_nonempty. Qed.
Check C14_parse_errors_nonempty : forall toks memo ctx n, fst (fst (parse_top toks memo ctx)) = PErr n -> n <> 0.
Print Assumptions C14_parse_errors_nonempty.

Theorem C14_checker_lookup_in_bounds : forall toks tree t ns f s r,
  syntax_tree toks = Some tree -> fst (fst (parse_top toks true [])) = POk t ns ->
  tcB f s [] [] t = Some r -> ~ In EScope (b_errs r).
Proof. exact checker_lookup_in_bounds. Qed.
Check C14_checker_lookup_in_bounds : forall toks tree t ns f s r,
  syntax_tree toks = Some tree -> fst (fst (parse_top toks true [])) = POk t ns ->
  tcB f s [] [] t = Some r -> ~ In EScope (b_errs r).
Print Assumptions C14_checker_lookup_in_bounds.

(* the normaliser's and the unifier's context lookups (Proofs/ScopeStore.v): under the store-scoping invariant the
   copies of whnfB / unifyB whose lookups ABORT on an index beyond the end of the definitions context compute the
   same results, i.e. no lookup misses; a variable returned as a weak-head normal form is a parameter in range *)
Theorem C14_unify_lookups_in_bounds : forall f s H D a b r,
  store_ok H s -> dctx_ok H D -> wsc H (length D) (length D) a -> wsc H (length D) (length D) b ->
  unifyB f s D a b = Some r -> unifyK f s D a b = Some r.
Proof. exact unifyB_lookup_in_bounds. Qed.
Check C14_unify_lookups_in_bounds : forall f s H D a b r,
  store_ok H s -> dctx_ok H D -> wsc H (length D) (length D) a -> wsc H (length D) (length D) b ->
  unifyB f s D a b = Some r -> unifyK f s D a b = Some r.
Print Assumptions C14_unify_lookups_in_bounds.

Theorem C14_whnf_variable_in_bounds : forall f s H D t i s',
  store_ok H s -> dctx_ok H D -> wsc H (length D) (length D) t ->
  whnfB f s D t = Some (TVar i, s') -> nth_error D i = Some None.
Proof. exact whnfB_lookup_in_bounds. Qed.
Check C14_whnf_variable_in_bounds : forall f s H D t i s',
  store_ok H s -> dctx_ok H D -> wsc H (length D) (length D) t ->
  whnfB f s D t = Some (TVar i, s') -> nth_error D i = Some None.
Print Assumptions C14_whnf_variable_in_bounds.

(* the type checker does NOT maintain that invariant (recorded finding D19): on the closed, parser-accepted program
   `(f : type) => (z : (a : type) -> _) => ((w : (a : type) -> f) => w) z + z int` it asks the normaliser for index 2
   of a context of length 2 - the implementation panics there (src/normalizer.rs, context lookup) *)
Theorem C14_lookup_out_of_bounds_D19 : ltac:(let T := type of CE.tcB_lookup_out_of_bounds in exact T).
Proof. exact CE.tcB_lookup_out_of_bounds. Qed.
Check C14_lookup_out_of_bounds_D19 : _ /\ length CE.D2 = 2 /\ nth_error CE.D2 2 = None /\ _ /\ _ = None.
Print Assumptions C14_lookup_out_of_bounds_D19.

(* THE CHECKER STAGE (Proofs/TcBounds.v): for every program accepted by parse(), checked from the store the driver hands
   over, whenever neither instrumented event occurs (hooks H1 / H3 silent: `tcN` answers) the run performs NO out-of-range
   context lookup - neither in the typing context (the implementation's panic site in the variable rule) nor in the
   definitions context of the normaliser (where the recorded panic D19 happens): the copy `tcK` in which such a lookup
   aborts returns the same result. The resolver's output satisfies the hole-scoping invariant (`sresolve_wsM`). *)
Theorem C14_checker_lookups_in_bounds_when_hooks_are_silent : forall toks tree t ns f r,
  syntax_tree toks = Some tree -> fst (fst (parse_top toks true [])) = POk t ns ->
  TcSoundHoles.tcN f (repeat None (TcBounds.nholes_of tree)) [] [] t = Some r ->
  tcB f (repeat None (TcBounds.nholes_of tree)) [] [] t = Some r /\ TcBounds.tcK f (repeat None (TcBounds.nholes_of tree)) [] [] t = Some r.
Proof. exact TcBounds.checker_lookups_in_bounds. Qed.
Check C14_checker_lookups_in_bounds_when_hooks_are_silent : forall toks tree t ns f r,
  syntax_tree toks = Some tree -> fst (fst (parse_top toks true [])) = POk t ns ->
  TcSoundHoles.tcN f (repeat None (TcBounds.nholes_of tree)) [] [] t = Some r ->
  tcB f (repeat None (TcBounds.nholes_of tree)) [] [] t = Some r /\ TcBounds.tcK f (repeat None (TcBounds.nholes_of tree)) [] [] t = Some r.
Print Assumptions C14_checker_lookups_in_bounds_when_hooks_are_silent.

