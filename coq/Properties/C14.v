(* C14  gram handles every input without crashing and reports failure faithfully.
   Proved for the models: the tokenizer never reaches its panic site and is a structural recursion
   on the input (so it terminates); a failing tokenizer or parser model returns a non-empty error
   list; the parser model runs on explicit fuel proportional to the input; and, for every token
   list, the mirror of parse() never reaches a panic site: a tree that contains an error node always
   carries an error factory, so it never reaches the re-association passes ([ref:error_check]), and
   check_definitions never meets a hole with a non-zero shift (C14_parse_never_panics); and the
   linear fuel always suffices, i.e. the parser model terminates on every token list
   (C14_parse_terminates, from the absence of left recursion in the generated skeleton). First step
   into the checker: what parse() accepts is well scoped, and on a well-scoped term the Model B
   checker never reaches its typing-context lookup panic site (C14_checker_lookup_in_bounds). Panics, aborts and the
   process-level contract of the real binary are explored by the library and CLI streams. *)
From Coq Require Import List ZArith NArith Bool Arith.
Import ListNotations.
Require Import Gram.Model.Term Gram.Model.Token Gram.Gen.TokenTables Gram.Model.Tokenizer Gram.Proofs.TokenizerProofs.
Require Import Gram.Model.Grammar Gram.Model.Parser Gram.Model.ParserPost Gram.Proofs.ContractProofs Gram.Proofs.PanicProofs Gram.Proofs.PackratProofs.
Require Import Gram.Model.ModelB Gram.Spec.ScopeSpec Gram.Proofs.ScopedProofs.

Theorem C14_parse_terminates : forall toks memo ctx, fst (fst (parse_top toks memo ctx)) <> POutOfFuel.
Proof. exact parse_top_within_fuel. Qed.
Check C14_parse_terminates : forall toks memo ctx, fst (fst (parse_top toks memo ctx)) <> POutOfFuel.
Print Assumptions C14_parse_terminates.

Theorem C14_parse_never_panics : forall toks memo ctx, fst (fst (parse_top toks memo ctx)) <> PPanic.
Proof. exact parse_top_never_panics. Qed.
Check C14_parse_never_panics : forall toks memo ctx, fst (fst (parse_top toks memo ctx)) <> PPanic.
Print Assumptions C14_parse_never_panics.

Theorem C14_tokenize_no_panic : forall gend cs, tokenize gend cs <> Panic.
Proof. exact tokenize_no_panic. Qed.
Check C14_tokenize_no_panic : forall gend cs, tokenize gend cs <> Panic.
Print Assumptions C14_tokenize_no_panic.

Theorem C14_tokenize_errors_nonempty : forall gend cs es, tokenize gend cs = Err es -> es <> [].
Proof. exact tokenize_errors_nonempty. Qed.
Check C14_tokenize_errors_nonempty : forall gend cs es, tokenize gend cs = Err es -> es <> [].
Print Assumptions C14_tokenize_errors_nonempty.

Theorem C14_parse_errors_nonempty : forall toks memo ctx n, fst (fst (parse_top toks memo ctx)) = PErr n -> n <> 0.
Proof. exact parse_errors_nonempty. Qed.
Check C14_parse_errors_nonempty : forall toks memo ctx n, fst (fst (parse_top toks memo ctx)) = PErr n -> n <> 0.
Print Assumptions C14_parse_errors_nonempty.

Theorem C14_checker_lookup_in_bounds : forall toks tree t ns f s r,
  syntax_tree toks = Some tree -> fst (fst (parse_top toks true [])) = POk t ns ->
  tcB f s [] [] t = Some r -> ~ In EScope (b_errs r).
Proof. exact checker_lookup_in_bounds. Qed.
Check C14_checker_lookup_in_bounds : forall toks tree t ns f s r,
  syntax_tree toks = Some tree -> fst (fst (parse_top toks true [])) = POk t ns ->
  tcB f s [] [] t = Some r -> ~ In EScope (b_errs r).
Print Assumptions C14_checker_lookup_in_bounds.
