y : int = (
  x : u = 3
  u : type = t
  t : type = int
  x
)
y + 1
