a = 2 -
  1
b = (
  a * 3
)
# comment
b - a # trailing
