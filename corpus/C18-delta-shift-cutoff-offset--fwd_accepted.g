# Ill-typed: `a` has the abstract type `b`, but the inner function expects a `u`, i.e. an `int`.
u = t
t = int
f = (b : type) => (a : b) => ((x : u) => x) a

f bool true
