x : (if 1 / 0 == 0 then int else bool) = 5
x
