t = type
a : t = int
(x : int) -> a
