g = (n : int) => (y = y * n; y)
g 3
