# A block whose value has the type `b`, the second name defined in the block;
# `b` stands for `s` from the enclosing scope, that is, `int`.
s = int
t = bool
u = (
  a = 1
  b = s
  x : b = 5
  x
)
f = (n : int) => n + 1
f u
