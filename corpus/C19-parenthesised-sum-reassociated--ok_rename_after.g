twice = (g : int -> int) => (y : int) => g (g y)
twice ((m : int) => m - (m - 3) - 1) 20
