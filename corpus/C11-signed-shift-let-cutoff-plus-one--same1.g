# Same as demo2, but the local definitions are not in one group of two: a
# single local definition. Both builds agree.
offset = (f : int -> int) => (z : int) => f (z + 100)
g = (x : int) =>
  a = x + 1
  a * 2

offset g 3
