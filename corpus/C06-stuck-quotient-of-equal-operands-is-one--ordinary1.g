f = (P : int -> type) => (n : int) => (x : P (n / 2 + 6 / 6)) => ((y : P (n / 2 + 1)) => y) x
f
