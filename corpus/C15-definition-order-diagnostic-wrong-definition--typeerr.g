scale = (x : int) => x * 2
total = scale true
total
