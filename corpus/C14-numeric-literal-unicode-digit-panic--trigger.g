x = 5²
x
