# `f` returns either its argument or itself, so the argument type `a` would
# have to satisfy `a = a -> a`. There is no such (finite) type: reject.
f : _ = x => if true then x else f

0
