id = (t : type) => (x : t) => x

id int 42
