(f : int -> int -> int) => (g : int -> int) => f (g 1) (g (2 + 3))
