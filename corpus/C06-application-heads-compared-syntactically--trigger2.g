# Propositional equality: refl int 2 proves eq int (1 + 1) 2 by computation.
(eq : (a : type) -> (x : a) -> (y : a) -> type) =>
(refl : (a : type) -> (x : a) -> eq a x x) =>
  (proof : eq int (1 + 1) 2 = refl int 2; proof)
