# Ordinary ill-typed program: branches of a conditional differ in type.
# Both builds must reject this.
abs = (x : int) => if x < 0 then 0 - x else x

if abs (0 - 3) == 3 then abs 4 else false
