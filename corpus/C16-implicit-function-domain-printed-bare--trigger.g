f : (({a : type} -> a -> a) -> int) = (g : {a : type} -> a -> a) => 1
f
