# Balance after a refund and a fee: the refund is the difference of two amounts.
settle = (total : int) => (charged : int) => (refunded : int) => (fee : int) =>
  total - (charged - refunded) - fee

settle 100 30 10 5
