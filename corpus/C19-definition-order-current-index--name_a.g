f = (x : int) => x + a
a = 1 + 2
f 1
