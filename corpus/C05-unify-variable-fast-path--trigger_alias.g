# Two names for the same type. Every definition carries its annotation.
nat : type = int
num : type = nat

x : nat = 3

# The inferred type of the definition is the variable `nat`; the annotation is the variable `num`.
y : num = x

y
