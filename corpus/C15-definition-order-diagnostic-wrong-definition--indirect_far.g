unit = 1
result =
  if ready 0
    then unit
    else 0
ready = (n : int) =>
  n < limit
limit = unit + unit
result
