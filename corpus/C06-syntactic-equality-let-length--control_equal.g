# Two let-terms with the same number of definitions that really are equal: accepted by both.
same : (
  (p : int -> type) ->
  p (x = 1; y = 2; x + y) ->
  p (a = 1; b = 2; a + b)
) =
  p => h => h

# Different lets that reduce to the same literal: accepted by both.
also : (
  (p : int -> type) ->
  p (x = 1; y = 2; y) ->
  p (x = 2; x)
) =
  p => h => h

type
