(b : bool) => (f : int -> int) => (g : int -> int) => (if b then f else g) 1
