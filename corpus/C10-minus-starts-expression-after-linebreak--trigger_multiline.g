total = 10
total
  - 3
