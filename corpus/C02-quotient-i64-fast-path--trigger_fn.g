# Same quotient reached through a function call and a definition group.
half : (int -> int) = x => x / 2
negate : (int -> int) = x => x / (0 - 1)
negate (half (0 - 18446744073709551616))
