# Well-typed control: must be accepted both with and without the change.
clamp : (int -> int) = n => if n >= 0 then n else 0

clamp 7
