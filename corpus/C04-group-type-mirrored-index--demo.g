# A local group of three definitions. The result `x` is annotated with the
# alias `num`, so the group's reported type mentions `num`.
y = (
  num = int
  x : num = 3
  flag = bool
  x
)

y
