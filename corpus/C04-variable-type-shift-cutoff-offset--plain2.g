# dependent function and a group whose annotations only look backwards
id = (a : type) => (y : a) => y
t = int
x : t = 3
k = (b : type) => id t x
if k bool == 3 then id bool true else false
