scale = (x : int) => x * factor
factor = 2 + 3
total = scale 10
total
