is_zero : (int -> bool) = n => n == 0

count : (int -> int) = n =>
  if is_zero n
  then 0
  else count (n - 1)

count 2
