# Halve the difference of two numbers; the difference is negative and odd.
half_gap : (int -> int -> int) = (a : int) => (b : int) => (a - b) / 2

half_gap 10 15
