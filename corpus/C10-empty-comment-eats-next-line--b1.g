x = 10
x
# subtract three
- 3
