f = (x : int) => x + a
a = 1 + 2
g = (z : int) => z * 2
y = f 1
g y
