sum_to : (int -> int) = n =>
  if n <= 0
  then 0
  else n + sum_to (n - 1)

sum_to 10
