# Unannotated binders and `_` annotations solved by unification, including a
# hole written outside a binder and solved underneath it.
id = a => (x : a) => x
const = (a : type) => (b : type) => (x : a) => (y : b) => x
twice = (f : int -> _) => (x : int) => f (f x)
pick = (h : _) => (w : int) => if true then h else ((y : int) => w + y)
twice ((n : int) => n + 1) (const int bool (id _ 40) true) + pick ((y : int) => y) 2 0
