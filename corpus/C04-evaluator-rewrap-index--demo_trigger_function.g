pick : (int -> int -> int) = n =>
  if n == 0
  then (m : int) => m
  else pick (n - 1)

flag : (int -> bool -> bool) = n => (b : bool) => b

pick 2
