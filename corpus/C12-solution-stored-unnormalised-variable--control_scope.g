# Ordinary uses of holes: the solution is in scope where the hole was written.
id = a => (x : a) => x
pick = (t : type) => x => (y : t) => if true then x else y
k = x => (n : int) => (y : int) => if n == 0 then x else y
pick int (id int 3) (k 4 0 5)
