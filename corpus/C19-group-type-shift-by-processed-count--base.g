# A function whose body is a small definition group: a local type alias `t`
# for the parameter `a`, and the identity function on it.
f = (a : type) => (
  t = a
  (x : t) => x
)

f int 3
