# A function with a group of two local definitions that use its parameter,
# passed to a higher-order function (so it is substituted beneath the binder
# `z`). Expected: ((3 + 100) + 1) * 2 = 208.
offset = (f : int -> int) => (z : int) => f (z + 100)
g = (x : int) =>
  a = x + 1
  b = a * 2
  b

offset g 3
