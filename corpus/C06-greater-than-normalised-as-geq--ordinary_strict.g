# Strict comparisons with distinct operands, both directions.
t = if 4 > 3 then int else bool
u = if 3 > 4 then int else bool
x : t = 5
y : u = false
if y then x else x + 1
