# A genuine mismatch that both builds reject.
f : (int -> bool) = x => x + 1

f 3
