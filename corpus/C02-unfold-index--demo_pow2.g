# pow2 n = 2^n via a helper defined later in the group. The answer is 4.
pow2 : (int -> int) = n =>
  if n <= 0
  then 1
  else double (pow2 (n - 1))

double : (int -> int) = k => k + k

pow2 2
