id = (a : type) => (v : a) => v
id int (if 1 < 2 then 7 else 9)
