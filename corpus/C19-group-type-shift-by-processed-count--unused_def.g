# base.g with an unused definition `z = 0` added in front of the inner group.
f = (a : type) => (
  z = 0
  t = a
  (x : t) => x
)

f int 3
