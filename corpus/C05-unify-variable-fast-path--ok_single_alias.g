# A single alias: the alias is only ever compared with `int`, never with another variable.
nat : type = int

x : nat = 3

double : (nat -> nat) = (n : nat) => n + n

double x
