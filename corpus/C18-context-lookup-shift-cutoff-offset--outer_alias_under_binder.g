# The alias lives in an enclosing scope rather than in the same group.
(t : type) => (z : t) =>
  x : t = z
  f = (y : int) => x
  f 4
