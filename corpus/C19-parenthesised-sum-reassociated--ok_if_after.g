a = 8; b = 3; unused = 99
if true then a - (b - 1) - 2 else 0
