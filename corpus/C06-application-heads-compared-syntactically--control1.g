# One argument only: the differing argument is the LAST one, still accepted.
(p : int -> type) =>
(v : p (1 + 1)) =>
(use : p 2 -> int) =>
  use v
