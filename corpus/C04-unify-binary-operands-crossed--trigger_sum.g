# A cast between two instances of a type family, indexed by sums of different variables.
cast : ((p : int -> type) -> (x : int) -> (y : int) -> p (x + x) -> p (y + y)) =
  p => x => y => v => v

cast (n => if n == 0 then int else bool) 0 1 5
