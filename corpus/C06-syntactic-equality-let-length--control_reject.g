# Same number of definitions, different values: rejected by both.
bad : (
  (p : int -> type) ->
  p (x = 1; y = 2; y) ->
  p (x = 1; y = 3; y)
) =
  p => h => h

type
