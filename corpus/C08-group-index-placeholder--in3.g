# Legal program: `f` is used in the body, after the `_` member. Must print 42.
_ = type
f = (n : int) => n + 1
f 41
