# Parenthesised arguments with at most one argument of their own, and arithmetic chains in
# parentheses in the middle of an application: unaffected.
add3 = (x : int) => (y : int) => (z : int) => x + y + z
inc = (x : int) => x + 1

add3 (inc 1) (10 - 5 - 3) (inc (inc 2)) * 2
