# Run-time use: pick is applied at a = int, so the result is 7.
pick = (a : type) => (x : if false then bool else a) =>
  y : a = x
  y
pick int 7
