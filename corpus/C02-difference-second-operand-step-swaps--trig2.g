f : (int -> int) = x => x * 2

100 - f 3
