ab = 2
b = 9
if 5<ab then 111 else 222
