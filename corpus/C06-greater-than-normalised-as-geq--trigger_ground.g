# Closed program of type bool: running it yields false.
3 > 3
