double : (int -> int) = n =>
  n * 2

double (20 + 1)
