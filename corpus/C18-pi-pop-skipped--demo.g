# Exactly one thing is wrong with this program: `f` is applied to a function returning a `bool`
# where a function returning an `int` was expected. Everything after `bad` is well-typed, and in
# particular `one` unfolds to `1`, so `p one` and `p 1` are the same type.

one = 1

f = (g : int -> int) => g 0

bad = f ((n : int) => true)

check : ((p : int -> type) -> p one -> p 1) = (p : int -> type) => (h : p one) => h

check
