# A proof-like term: the two types differ only by an arithmetic step, so the
# checker has to normalise `(1 + 0) / 0` and `1 / 0` to compare them.
p : ((q : int -> type) -> q ((1 + 0) / 0) -> q (1 / 0)) = q => h => h
p
