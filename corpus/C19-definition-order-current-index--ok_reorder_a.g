a = 1 + 2
f = (x : int) => x + a
g = (z : int) => z * 2
y = f 1
g y
