# Same as implicit_dependent.g with explicit binders throughout
(q : ((a : type) -> a -> a) -> type) =>
(mk : (h : (a : type) -> a -> a) -> q h) =>

r : q ((a : type) => (x : a) => x) = mk ((a : type) => (x : a) => x)

r
