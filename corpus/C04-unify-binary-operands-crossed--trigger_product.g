# Same shape with a product as the index.
cast : ((p : int -> type) -> (x : int) -> (y : int) -> p (x * x) -> p (y * y)) =
  p => x => y => v => v

cast (n => if n == 0 then bool else int) 0 3 true
