# ordinary program: indentation, blank lines, trailing comments
add = (a : int) => (b : int) =>
    a + b   # sum


  inc = add 1 # partial application
	inc (inc 40)
