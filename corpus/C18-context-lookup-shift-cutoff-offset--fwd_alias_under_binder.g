# A definition whose annotation names a type alias declared LATER in the same
# group, used underneath a binder.
x : t = 3
t = int
f = (y : int) => x + y

f 4
