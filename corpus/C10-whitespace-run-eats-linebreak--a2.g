x = 3 
y = x + 4
y * 2
