f = (x : int) => (y : int) => x
f (f (f (f (f (f (f (f (f (f (f 1 2) 2) 2) 2) 2) 2) 2) 2) 2) 2) 2
