# `x` is local to the parenthesized group that defines `f`. The later mention of `x` inside `g`
# has no binder in scope, so this program must be rejected.
f = (x = 1; x)
g = (y : int) => x
g 5
