# A negated value passed as a function argument.
double = (x : int) => x * 2

double (-3)
