# Positive divisors: greatest common divisor by repeated remainder.
rem : (int -> int -> int) = a => b => a - (a / b) * b
gcd : (int -> int -> int) = a => b => if b == 0 then a else gcd b (rem a b)

gcd 84 36
