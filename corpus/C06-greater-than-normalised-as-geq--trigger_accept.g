# 3 > 3 is false, so t is bool and 5 : t is a type error.
t = if 3 > 3 then int else bool
x : t = 5
x
