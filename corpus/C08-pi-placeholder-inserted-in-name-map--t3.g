# Both builds accept this one, but the elaborated type printed by `gram check` shows what `_`
# was resolved to: a fresh hole (`type -> _`) or the unnamed parameter (`(_ : type) -> _`).
use = (g : ((_ : type) -> _)) => g int + g (int -> int) 3
use
