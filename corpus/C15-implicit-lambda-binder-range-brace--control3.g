x = type
f = {x : type} -> x
f
