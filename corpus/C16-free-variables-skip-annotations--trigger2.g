# A polymorphic "diverging producer" type: the parameter t is mentioned only in the
# annotation of the local definition.
producer = (t : type) -> (loop : (int -> t) = n => loop (n + 1); bool)
producer
