# Well typed: `a : t` and `t` is an alias for `type`, so the inner codomain `a` is a type.
t = type
(a : t) -> (x : a) -> a
