# Ordinary well-typed program: one-definition groups, a higher-order function, a conditional.
twice : ((int -> int) -> int -> int) = (g : int -> int) => (x : int) => g (g x)
n = twice ((y : int) => y * 3) 7
if n >= 63 then n - 21 else 0
