# Two stuck conditionals in type position: different conditions and different
# `then` branches, but the same `else` branch.
f = (b : bool) => (c : bool) =>
  (p : (if b then int else bool) -> int) =>
  (x : if c then bool else bool) =>
    p x

f
