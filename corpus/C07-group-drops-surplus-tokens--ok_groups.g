# Ordinary program with plenty of parentheses: both builds agree.
f = (x : int) => (x + 1) * (2 - (x / 1))
g = (h : int -> int) => (y : int) => h (h (y))
g f (3 - (1 - 1))
