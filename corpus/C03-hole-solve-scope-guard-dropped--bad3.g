# Ill scoped: the type of x would have to mention t, which is bound after x.
x => (t : type) => (y : t) => if true then x else y
