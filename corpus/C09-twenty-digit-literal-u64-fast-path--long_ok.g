# 21 digits: takes the arbitrary-precision path in both builds
100000000000000000000 + 1
