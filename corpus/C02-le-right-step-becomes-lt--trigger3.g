double : (int -> int) = x => x * 2

if 8 <= double 4
then 1
else 0
