# A recursive group with a forward type alias.
fact : (nat -> nat) = (n : nat) => if n <= 0 then 1 else n * fact (n - 1)

nat : type = int

fact 5
