# The definition of x mentions t (a later definition that is not a value) in the
# annotation of a nested group with two definitions.
x = (
  u : t = 3
  v = 4
  u + v
)
t = (if true then int else bool)
x
