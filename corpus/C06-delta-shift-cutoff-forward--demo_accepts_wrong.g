# `a` is defined through a LATER member of its own group (a forward reference);
# `b` is the last member of the group.
a = b
b = int

# p produces a value of any type x; q must produce an `a` (= int) for every x.
# Passing p where q is expected compares (x : type) -> x with (x : type) -> a,
# i.e. it asks whether x and a are definitionally equal under the binder x.
# a reduces to b and then to int, never to x, so this must be rejected.
((bad : ((x : type) -> x) -> int) => 2) (
  (p : (x : type) -> x) => ((q : (x : type) -> a) => 1) p
)
