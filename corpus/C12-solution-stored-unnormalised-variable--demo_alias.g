# The type of x is a hole written outside the binders n, t, y and z. It is
# used at type t (a local alias of int) and then at type bool. These cannot
# both hold, so this program must be rejected.
x => (n : int) =>
  t = int
  (y : t) => (z : bool) =>
    a = if true then x else y
    b = if true then x else z
    n
