f : (int -> int) = n => n + 1
g = (n : int) => f n
f : (int -> int) = n => n * 100
g 1
