# same shape, the other way round: reported int, value true
flag : t = true
t = bool
((n : type) => flag) int
