# `_` member followed by two definitions. The body must denote 10 - 3 = 7.
_ = 100
a = 10
b = 3
a - b
