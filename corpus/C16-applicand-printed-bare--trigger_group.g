(f = (x : int) => x; f) 3
