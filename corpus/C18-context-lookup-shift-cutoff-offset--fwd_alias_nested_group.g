# x is a boolean (t = bool, declared after x). Inside the nested group, `x + 1`
# must be rejected: x is not an integer.
x : t = true
y = (u = int; x + 1)
t = bool

y
