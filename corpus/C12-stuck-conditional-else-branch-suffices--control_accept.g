# Identical stuck conditionals: accepted by both.
f = (b : bool) =>
  (p : (if b then int else bool) -> int) =>
  (x : if b then int else bool) =>
    p x

f
