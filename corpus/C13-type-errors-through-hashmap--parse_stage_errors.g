a = b + 1
b = 2 + 2
c = q
a + c
