# The type of `f` is a hole written outside the binders of `a` and `x`. The two uses of `f` below
# are inconsistent (`f` is applied to a value of type `a` and also to the type `a` itself), and
# neither of the two function types can be expressed in the scope where the hole was written.
apply = f => (a : type) => (x : a) =>
  y = f x
  z = f a
  z

apply ((n : int) => n + 1) bool true
