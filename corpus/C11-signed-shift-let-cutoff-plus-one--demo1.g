# A recursive function whose body has a group of two local definitions that
# both use the parameter.
sum_to : (int -> int) = (n : int) =>
  m = n - 1
  r = if n == 0 then 0 else n + sum_to m
  r

sum_to 4
