# `total` is not a value; it reaches `p` and `q` only through the lambda `both`.
total = both 1
both = (x : int) => p + q + x
p = 2 * 3
q = 4 * 5
total
