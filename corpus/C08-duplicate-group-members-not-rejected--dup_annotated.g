x : int = 1
y = x + 1
x : bool = true
y
