f = (x : 1) => x
g = (y : int) => y
(f 2) + (g true) + (3 4)
