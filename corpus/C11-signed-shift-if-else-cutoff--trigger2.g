# x has type `if false then int else a`, which is just a, so y : a = x is fine.
(a : type) => (x : if false then int else a) =>
  y : a = x
  y
