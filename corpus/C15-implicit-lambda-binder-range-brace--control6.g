f = {x} => $ x
f
