id = {a} => (x : a) => x
id
