f = (x : Integer) => x + a
g = (y : Integer) => y + b
f (g c)
