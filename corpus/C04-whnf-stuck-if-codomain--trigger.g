# A type computed by a conditional on a function's own parameter
ty = (b : bool) => if b then int else bool

# The identity function at that type
f : ((b : bool) -> ty b -> ty b) = (b : bool) => (x : ty b) => x

# An eta-expanded copy of it (its type is inferred)
h = (b : bool) => (x : ty b) => f b x

h false true
