# Nested arrows: the hole sits under two unnamed parameters.
add : (int -> int -> _) = x => y => x + y
add 2 3
