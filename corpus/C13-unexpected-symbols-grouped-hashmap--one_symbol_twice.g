x = 1 $ 2
y = x $ 3
y
