a = type
g = (y : a) => {a} => (z : a) => z
g
