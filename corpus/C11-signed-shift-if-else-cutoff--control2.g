# The then branch mentions the innermost variable.
(a : type) => (x : if true then a else int) =>
  y : a = x
  y
