# Division by a literal, and by a lambda-bound variable: unaffected.
half = (n : int) => n / 2
div = (a : int) => (b : int) => a / b
div (half 100) 5
