a = 1 + 2
f = (x : int) => x + a
r = f 1
r * 5
