p = (true)	
q = if p then 1 else 2
q
