# Two distinct type parameters: `x : b` is passed where an `a` is expected.
(a : type) => (b : type) => (f : a -> int) => (x : b) => f x
