# Same as demo1, but with a single local definition. Both builds agree.
sum_to : (int -> int) = (n : int) =>
  m = n - 1
  if n == 0 then 0 else n + sum_to m

sum_to 4
