# Non-strict comparison of equal literals is unaffected.
t = if 3 >= 3 then int else bool
x : t = 5
x
