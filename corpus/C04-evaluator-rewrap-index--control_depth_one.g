count : (int -> int) = n =>
  if n == 0
  then 0
  else count (n - 1)

is_zero : (int -> bool) = n => n == 0

count 1
