# Negations in positions where the grammar needs no parentheses around them.
a = 7
b = -(a + 1)
c = a - (-b)
d = -(-c)

if -a < b then a * (-d) else -(a * d)
