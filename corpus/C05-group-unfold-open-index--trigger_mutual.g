z : int = (
  even_t : (int -> type) = (n : int) => if n == 0 then int else odd_t (n - 1)
  odd_t : (int -> type) = (n : int) => if n == 0 then bool else even_t (n - 1)
  v : even_t 6 = 7
  v
)
z
