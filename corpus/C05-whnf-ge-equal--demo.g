# A fully annotated program. The type of `x` is computed by a conditional
# whose condition is a comparison between two equal integers.
id : ((a : type) -> a -> a) = (a : type) => (x : a) => x
succ : ((if 2 >= 2 then int else bool) -> int) =
  (x : if 2 >= 2 then int else bool) => x + 1
succ (id (if 1 >= 1 then int else bool) 3)
