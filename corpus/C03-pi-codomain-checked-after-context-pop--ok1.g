compose = (a : type) => (b : type) => (c : type) => (f : b -> c) => (g : a -> b) => (x : a) => f (g x)
compose int int bool ((y : int) => y > 2) ((z : int) => z + 1) 4
