# A definition group with two type aliases. The function's type mentions `a`.
f = (
  a = int
  b = bool
  (x : a) => x + 1
)

# Ill-typed: `f` expects an `a` (= int), but gets a Boolean.
f true
