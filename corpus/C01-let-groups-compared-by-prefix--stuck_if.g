# Two type-level definition groups of different lengths: the first one
# computes `int`, the second one computes `bool`.
x : (t = int; t) = 5
y : (t = int; u = bool; u) = x
if y then 1 else 2
