# Local definitions and higher-order calls, but every argument is closed by the
# time it is substituted.
double = (n : int) => n * 2

pipeline = (k : int -> int) => (
  negate = (z : int) => 0 - z
  (m : int) => k (negate m)
)

shifted = pipeline ((n : int) => double n)

shifted 1
