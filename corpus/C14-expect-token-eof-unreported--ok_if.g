if true then 1 else 2
