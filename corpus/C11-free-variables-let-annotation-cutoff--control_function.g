# Annotated nested groups inside ordinary function definitions.
double : (int -> int) = n => (
  two : int = 2
  r : int = n * two
  r
)
id = a => (x : a) => (y : a = x; y)
id int (double 21)
