x = 3
if x <$ 4 then 111 else 222
