# "This is not a type" at the other positions: a lambda domain, a pi domain, an annotation
f = (x : 3) => x
g = (h : true -> int) => h
k : 7 = 7
f
