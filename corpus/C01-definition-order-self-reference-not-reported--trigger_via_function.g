f = (u : int) => x + u
x = f 1
x
