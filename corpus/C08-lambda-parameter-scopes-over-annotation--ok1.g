# Ordinary: sibling scopes re-using a name, annotation refers to an outer name.
t = int
inc = (x : t) => x + 1
dbl = (x : t) => x * 2
app = (f : (y : t) -> t) => (x : t) => f x

app inc (app dbl 20)
