# `n / n` under a binder: the divisor is a variable, so the quotient is stuck.
f = (P : int -> type) => (n : int) => (x : P (n / n)) => ((y : P 1) => y) x
0
