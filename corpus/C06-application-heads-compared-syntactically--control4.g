# Ordinary closed ground program: check and run agree in both builds.
double : (int -> int) = x => x + x
pick : (bool -> int -> int -> int) = b => x => y => if b then x else y
pick (double 2 == 4) (double 5) 0
