# Dependent function type, multi-line, with non-ASCII text before the fault
konst = (a : type) => (b : type) =>
  (x : a) =>
    (y : b) => x

# "λ-Typ ≠ Wert"
t = (n : int) -> ((é : bool) ->
      n + 1)

t
