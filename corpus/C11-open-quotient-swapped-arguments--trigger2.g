# Average of two numbers; the divisor is a named constant defined alongside.
total = 84
count = 4
scale = 1
mean = total / count
mean * scale
