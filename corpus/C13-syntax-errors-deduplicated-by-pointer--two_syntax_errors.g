if then 1 else
