# Leibniz-style propositional equality, postulated as in examples/propositional_equality.g.
(eq : (a : type) -> (x : a) -> (y : a) -> type) =>
(refl : (a : type) -> (x : a) -> eq a x x) =>

# A bogus "proof" that n - 1 equals n + 1 for every n. `refl int (n - 1)` has type
# `eq int (n - 1) (n - 1)`, which is not convertible with `eq int (n - 1) (n + 1)`, so the type
# checker must reject this definition.
bogus : ((n : int) -> eq int (n - 1) (n + 1)) =
  (n : int) => refl int (n - 1)

type
