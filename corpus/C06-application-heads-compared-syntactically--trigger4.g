# The non-last argument is a defined name that unfolds to the literal.
(vec : int -> int -> type) =>
  n = 2
  (v : vec n 3) =>
  (use : vec 2 3 -> int) =>
    use v
