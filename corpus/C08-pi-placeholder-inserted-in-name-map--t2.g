# `_` in the codomain of a function type whose parameter is explicitly unnamed.
id : ((_ : type) -> _) = (a : type) => a
id int
