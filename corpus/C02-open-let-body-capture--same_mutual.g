# Mutual recursion without a local definition.
is_even : (int -> bool) = (n : int) =>
  if n == 0 then true else is_odd (n - 1)

is_odd : (int -> bool) = (n : int) =>
  if n == 0 then false else is_even (n - 1)

is_odd 7
