u = type
t : u = int
a : t = 3
(x : t) -> t
