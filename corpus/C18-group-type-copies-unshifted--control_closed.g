# Control: the second name of the block does not refer to the enclosing scope.
s = int
t = bool
u = (
  a = 1
  b = int
  x : b = 5
  x
)
f = (n : int) => n + 1
f u
