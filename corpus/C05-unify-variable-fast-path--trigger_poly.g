# A polymorphic identity function instantiated at one alias and checked against another.
id : ((t : type) -> t -> t) = (t : type) => (v : t) => v

nat : type = int
num : type = nat

f : (num -> num) = (n : nat) => id nat n

f 4
