(p : int -> type) => (h : _) => (w : _) =>
  r = if true then h else ((y : int) => w)
  q : p (h 3) = w
  r
