# Same shape as trigger_spurious.g, but the alias is defined before its use, so
# the variable in the annotation has index 1 (not below the size of the outer
# group after the miscount): accepted by both builds.
x = (
  t = int
  u : t = 3
  u + 1
)
x
