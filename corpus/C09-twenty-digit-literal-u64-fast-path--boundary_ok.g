# 20 digits but still within u64: fine in both builds
18446744073709551615 + 1
