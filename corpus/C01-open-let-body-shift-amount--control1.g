# Same definitions as trigger1, but `even` is mentioned in a definition of the nested group, not
# in its body.
even : (int -> bool) = n => if n == 0 then true else odd (n - 1)
odd : (int -> bool) = n => if n == 0 then false else even (n - 1)

if (
  k = 3
  r = even k
  r
) then 1 else 0
