f = (u : int) => (
  x = y + 1
  y = u + 1
  x
)
f 0
