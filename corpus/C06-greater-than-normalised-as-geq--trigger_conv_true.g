# The checker is asked whether `3 > 3` is convertible with `true`; it is not.
(eq : bool -> bool -> type) =>
(refl : (x : bool) -> eq x x) =>
  (p : eq (3 > 3) true = refl true; p)
