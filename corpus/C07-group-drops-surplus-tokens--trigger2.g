# Not a sentence of grammar.y: after the complete term `1 + 2` the group must close, but `then 3 else 4` follows.
f = (x : int) => x * 10
f (1 + 2 then 3 else 4)
