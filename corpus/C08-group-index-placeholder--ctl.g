# Control: no `_` member. Must print 7 with and without the change.
c = 100
a = 10
b = 3
a - b
