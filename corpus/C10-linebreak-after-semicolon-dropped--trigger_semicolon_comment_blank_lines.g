x = 1; # the definition of x


x + 1
