# Same leak, but the stale `x` is mentioned at the depth of its own (gone) binder.
f = (x = 1; x)
g = x
g
