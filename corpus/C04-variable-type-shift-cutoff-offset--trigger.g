# x's annotation mentions t, which is defined later in the same group
x : t = 3
t = int
((b : type) => x) bool
