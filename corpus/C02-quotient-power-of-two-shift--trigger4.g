# Repeated halving of a negative number: counts the halvings until the value reaches 0.
# Truncating division reaches 0 (-5, -2, -1, 0); flooring division sticks at -1 forever.
steps : (int -> int -> int) = (n : int) => (k : int) =>
  if n == 0
  then k
  else steps (n / 2) (k + 1)

steps (0 - 5) 0
