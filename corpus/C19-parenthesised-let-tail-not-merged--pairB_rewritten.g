even : (int -> bool) = n => if n == 0 then true else odd (n - 1); (odd : (int -> bool) = n => if n == 0 then false else even (n - 1); even 10)
