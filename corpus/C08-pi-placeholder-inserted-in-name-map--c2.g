# Dependent function type with a named parameter; `_` as an argument, as a lambda parameter and
# as the domain of a function type (never in a codomain).
id : ((a : type) -> a -> a) = a => x => x
const : (int -> bool -> int) = x => _ => x
pick : (_ -> int) = (b : bool) => if b then 1 else 0
const (id _ 7) true + pick false
