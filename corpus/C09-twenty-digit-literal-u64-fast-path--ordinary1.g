x = 40
y = 2
x + y
