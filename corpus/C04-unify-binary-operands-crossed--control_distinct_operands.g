# The indices differ and their operands differ too: rejected by both builds.
cast : ((p : int -> type) -> (x : int) -> (y : int) -> p (x + 1) -> p (y + 2)) =
  p => x => y => v => v

cast (n => if n == 1 then int else bool) 0 1 5
