# A higher-order helper with a local definition in its body, applied (while the
# group is still being evaluated) to a function that mentions a later definition.
pipeline = (k : int -> int) => (
  negate = (z : int) => 0 - z
  (m : int) => k (negate m)
)

shifted = pipeline ((n : int) => double n)

double : (int -> int) = (n : int) => n * 2

# double (negate 1) = -2
shifted 1
