x = 5
# ten plus x -> 15
10 + x
