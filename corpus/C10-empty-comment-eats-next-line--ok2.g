f = (n : int) =>
  if n == 0 # base
  then 1
  else n * 2
f 5
