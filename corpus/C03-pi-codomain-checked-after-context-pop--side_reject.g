z = 1
t = type
a : t = int
(x : int) -> a
