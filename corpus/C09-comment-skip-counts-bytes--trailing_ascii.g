x = 42  # the answer - obviously
x
