# Same trigger with computed operands: both sides reduce to 6.
fact : (int -> int) = n => if n == 0 then 1 else n * fact (n - 1)
t = if fact 3 > 2 * 3 then int else bool
x : t = true
x
