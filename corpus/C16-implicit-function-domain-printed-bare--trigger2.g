apply = (t : ({a : type} -> a) -> type) => t
apply
