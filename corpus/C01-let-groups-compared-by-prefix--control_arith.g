# Control: ordinary program.
double = (n : int) => n * 2
k = (t = 3; u = 4; t + u)
double k - 1
