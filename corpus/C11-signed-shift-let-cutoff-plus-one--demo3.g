# A type-level function with a group of two local definitions, used beneath
# the binder `u` (so its definition is shifted when it is looked up).
pick = (b : bool) =>
  x = int
  y = if b then x else bool
  y

f = (u : int) => ((v : pick true) => v + u) 5

f 1
