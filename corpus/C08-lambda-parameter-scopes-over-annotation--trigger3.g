# Single-point perturbation that unbinds a name: the annotation of `x`
# mentions `x` itself, which is not in scope there (a parameter scopes over
# the body only). Must be rejected with "not in scope".
f = (x : x) => x

f
