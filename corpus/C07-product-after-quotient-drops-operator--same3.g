f = (x : int) => x + 1
100 / f 4 * f 1 - 1
