# The most negative 64-bit integer divided by minus one: the exact answer is 2^63.
min : int = 0 - 9223372036854775808
min / (0 - 1)
