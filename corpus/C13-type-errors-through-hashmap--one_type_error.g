f = (x : int) => x
f true
