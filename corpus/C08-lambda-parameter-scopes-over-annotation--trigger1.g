# A function whose parameter `f` is annotated with a function type that itself
# has a parameter called `f`. The two `f`s are sibling scopes: the inner one
# scopes over the codomain of the annotation only, the outer one over the body.
apply = (f : (f : int) -> int) => f 20

apply (n => n + 1)
