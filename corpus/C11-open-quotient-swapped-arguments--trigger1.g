# Two definitions in one group; the divisor is the later one.
x = 7
y = 2
x / y
