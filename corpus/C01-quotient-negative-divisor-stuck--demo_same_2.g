# Mutual recursion, a nested group and a forward reference; no division at all.
even : (int -> bool) = n => if n == 0 then true else odd (n - 1)
odd : (int -> bool) = n => if n == 0 then false else even (n - 1)
twice = (f : int -> int) => (x : int) => (g = (y : int) => f (f y); g x)

if even 10 then twice (z => z * 3) 7 else 0
