# Control: type-level groups of the same length are still told apart.
x : (t = int; u = int; u) = 5
y : (t = int; u = int; u) = x
if y > 3 then 1 else 2
