x = 5 $
x
