a = 1 + true
b = if 3 then 1 else false
b b
