# The parameter is not mentioned at all: printed as `type -> ...` either way.
(t : type) -> (f : (int -> int) = n => f n; int)
