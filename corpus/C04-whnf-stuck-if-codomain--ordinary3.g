# A value-level conditional under a lambda
abs = (n : int) => if n < 0 then -n else n
abs (-7) >= 7
