# The same confusion, used to smuggle an integer into a conditional.
coerce : (
  (p : int -> type) ->
  p (x = 1; y = 2; y) ->
  p (x = 1; x)
) =
  p => h => h

family = (n : int) => if n == 1 then bool else int

flag : bool = coerce family 7

if flag then 1 else 0
