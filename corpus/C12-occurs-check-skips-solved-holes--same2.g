# A direct (not hidden behind a solved hole) infinite type; both builds reject it.
f : _ = (x : int) => f

f 1
