square = (x : int) => x * x
square 4 $ 2
