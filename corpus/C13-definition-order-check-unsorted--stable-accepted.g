# Accepted program: every definition is available in time.
f = (x : int) => x + 1
b = f 1
c = f 2
a = f b + f c
a
