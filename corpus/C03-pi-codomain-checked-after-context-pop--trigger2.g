u = type
t = bool
b : t = true
f = (x : int) -> b
5
