# Symmetric variant: the reducible argument is on the expected side.
(vec : int -> int -> type) =>
(v : vec 2 3) =>
(use : vec (if true then 2 else 0) 3 -> int) =>
  use v
