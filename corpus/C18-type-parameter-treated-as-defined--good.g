(a : type) => (b : type) => (f : a -> int) => (x : a) => f x
