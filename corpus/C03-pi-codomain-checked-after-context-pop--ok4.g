t = int
p = (a : type) => a -> bool
f : ((x : t) -> p t) = (x : t) => (y : t) => x >= y
f 3 4
