# Stuck conditionals that differ in the `else` branch too: rejected by both.
f = (b : bool) => (c : bool) =>
  (p : (if b then int else bool) -> int) =>
  (x : if c then bool else int) =>
    p x

f
