t : u = 5
(
  u = int
  t
)
