a + b
