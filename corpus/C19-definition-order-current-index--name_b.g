f = (x : int) => x + a
a = 1 + 2
r = f 1
r
