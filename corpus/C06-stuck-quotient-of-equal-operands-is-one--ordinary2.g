half = (x : int) => x / 2
half 84 / (half 4)
