# The same dependent identity, applied directly (no eta-expanded copy)
ty = (b : bool) => if b then int else bool
f : ((b : bool) -> ty b -> ty b) = (b : bool) => (x : ty b) => x
f false true
