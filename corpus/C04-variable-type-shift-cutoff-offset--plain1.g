t = int
x : t = 3
f = (b : type) => x
f bool
