pick = (b : bool) => (x : int) => (y : int) => if b then x else y

flag : bool = pick true 1 (
  2 + 3
)

flag
