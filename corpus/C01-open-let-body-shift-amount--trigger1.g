# Mutually recursive group; `even` (the first definition) refers forward to `odd`.
# Further down there is a nested group whose *body* mentions `even`.
even : (int -> bool) = n => if n == 0 then true else odd (n - 1)
odd : (int -> bool) = n => if n == 0 then false else even (n - 1)

if (
  k = 3
  even k
) then 1 else 0
