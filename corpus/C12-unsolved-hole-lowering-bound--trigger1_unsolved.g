(h : _) => (w : _) => if true then h else ((y : int) => w)
