# Control: only the FIRST member of an exited group is affected; here the stale mention is of the
# second member, so both builds reject it.
f = (w = 0; x = 1; x + w)
g = (y : int) => x
g 5
