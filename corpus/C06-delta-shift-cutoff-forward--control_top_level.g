# Forward reference, but converted at the level of the group (not under a binder).
a = b
b = int
y : a = 41
y + 1
