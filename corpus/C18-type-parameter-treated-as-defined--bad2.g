# Rejected by both: int is not a.
(a : type) => (f : a -> int) => f 3
