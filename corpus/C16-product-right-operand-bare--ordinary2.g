id = a => (x : a) => x
twice = (f : int -> int) => (x : int) => f (f x)
twice (y => y * 3 - 1) (id int 4)
