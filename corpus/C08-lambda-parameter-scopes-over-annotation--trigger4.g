# A group nested in the annotation that defines the same name as the parameter.
h = (t : (t = int; t)) => t * 2

h 21
