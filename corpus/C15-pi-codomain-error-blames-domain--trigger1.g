# A function type whose codomain is a number rather than a type
apply = (f : int -> 5) => (x : int) => x

apply
