total = factor * 10
factor = 2 + 3
total
