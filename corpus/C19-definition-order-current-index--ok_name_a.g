a = 1 + 2
f = (x : int) => x + a
f 1 * 5
