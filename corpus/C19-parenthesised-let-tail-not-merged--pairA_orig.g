f : (int -> int) = x => g x
g : (int -> int) = y => y + 1
f 1
