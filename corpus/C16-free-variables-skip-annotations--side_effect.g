x = (y : (if z == 0 then int else int) = 1; y)
z = 0 + 0
x
