x = 1
y = z
y
