f : (int -> int) = a => g a
(
  g : (int -> int) = b => b + 1
  f 41
)
