fib : (int -> int) = n =>
  if n <= 1
  then n
  else fib (n - 1) + fib (n - 2)

50 - fib 10
