((x : int) => x + 1) true
