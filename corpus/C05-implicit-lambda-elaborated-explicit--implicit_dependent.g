# A predicate on implicitly polymorphic functions and a way to build its proofs
(q : ({a : type} -> a -> a) -> type) =>
(mk : (h : {a : type} -> a -> a) -> q h) =>

# Fully annotated: the annotation mentions the same implicit function as the definition
r : q ({a : type} => (x : a) => x) = mk ({a : type} => (x : a) => x)

r
