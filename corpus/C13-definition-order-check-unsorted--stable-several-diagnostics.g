# Several diagnostics of other kinds (scoping).
a = foo
b = bar + baz
f = (a : int) => a
a
