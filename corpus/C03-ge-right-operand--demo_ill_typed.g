# Ill-typed: the right operand of `>=` is a Boolean, not an integer.
# A correct checker must reject this program.
clamp : (int -> int) = n => if n >= true then n else 0

clamp 7
