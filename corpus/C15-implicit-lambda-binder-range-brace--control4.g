f = {x} => y
f
