max = (x : int) => (y : int) => if x >= y then x else y

max 3 (max 4 5)
