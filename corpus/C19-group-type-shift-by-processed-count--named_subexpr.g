# base.g with the subexpression `a` of the alias named by a definition `u`.
f = (a : type) => (
  u = a
  t = u
  (x : t) => x
)

f int 3
