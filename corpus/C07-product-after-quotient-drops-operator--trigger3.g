g = (a : int) => (b : int) => (c : int) => a / b * c
g 8 2 3
