x = 1
f = {x} => x
f
