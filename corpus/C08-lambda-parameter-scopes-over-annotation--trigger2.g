# Same shape with a lambda (instead of a function type) inside the annotation:
# the annotation of `x` is `((x : type) => x) int`, which computes to `int`.
g = (x : ((x : type) => x) int) => x + 1

g 41
