# Division by zero stays stuck in both builds.
(0 - 9223372036854775808) / 0
