(t : type) -> (f : (int -> t) = n => f n; int)
