# A slightly more natural shape of the same thing: `k` either gives back the
# accumulator `x` or itself, so `a = a -> int -> a` would be needed: reject.
k : _ = x => (n : int) => if n == 0 then x else k

k 1 0
