# A top-level group of several definitions whose body type mentions the group (no enclosing binder).
t : type = int
u : type = t -> t
g : u = (x : t) => x + 1
y : t = g 41
y
