# Ordinary: a nested two-definition group whose type does not mention its own
# definitions.
g = (n : int) => (
  a = n + 1
  b = a * 2
  b - n
)

g 5
