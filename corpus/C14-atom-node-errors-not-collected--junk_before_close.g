(1 : 2 => else)
