if 1 then 2 else 3
