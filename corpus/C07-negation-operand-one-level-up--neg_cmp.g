if -1 + 2 > 0 then 1 else 0
