# Control: same program, but the helper is defined FIRST. The answer is -3 (unaffected).
pred : (int -> int) = k => k - 1

countdown : (int -> int) = n =>
  if n <= 0
  then 0
  else pred (countdown (n - 1))

countdown 3
