f = (u : int) => (
  y = u + 1
  x = y + 1
  x
)
f 0
