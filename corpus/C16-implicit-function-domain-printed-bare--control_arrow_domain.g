f : ((int -> int) -> int) = (g : int -> int) => g 1
f ((x : int) => x + 1)
