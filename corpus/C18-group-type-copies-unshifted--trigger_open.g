# The same block under plain parameters instead of definitions: the result
# type of `h s t v` must be `s` (the type of `v`), not `t`.
h = (s : type) => (t : type) => (v : s) => (
  a = 1
  b = s
  x : b = v
  x
)
f = (n : int) => n + 1
f (h int bool 5)
