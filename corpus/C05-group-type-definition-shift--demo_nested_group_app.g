(box : type -> type) =>
(mk : (a : type) -> a -> box a) =>
wrap : ((a : type) -> a -> box a) = (a : type) => (x : a) =>
  t : type = a
  y : t = x
  mk t y
wrap int 3
