# A neutral head applied to two arguments; the first arguments are convertible
# (1 + 1 reduces to 2) but not syntactically identical.
(vec : int -> int -> type) =>
(v : vec (1 + 1) 3) =>
(use : vec 2 3 -> int) =>
  use v
