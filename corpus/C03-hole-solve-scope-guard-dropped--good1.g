(x => y => if true then x else y) 1 2
