# The same confusion, this time between `int` and a function type: a number is called.
n : (t = int; t) = 7
f : (t = int; u = int -> int; u) = n
f 1
