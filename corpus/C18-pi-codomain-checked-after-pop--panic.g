# Well typed: `t` is an alias for `type`.
t = type
(x : t) -> x
