# The polymorphic identity function
id = a => (x : a) => x

id int 3
