# naïve identity
id = (a : type) => (x : a) => x
id int 7
