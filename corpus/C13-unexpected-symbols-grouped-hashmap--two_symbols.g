x = 1 $ 2
y = x @ 3
z = y $ 4
z
