# Well typed: `t` is an alias for `type`, so `x : t` is itself a type.
a = 5
t = type
(x : t) -> x
