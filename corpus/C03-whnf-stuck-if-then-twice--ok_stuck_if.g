# Well-typed counterpart: the annotation matches f's type exactly.
f = (b : bool) => (x : if b then int else bool) => x

g : ((b : bool) -> (if b then int else bool) -> (if b then int else bool)) = f

if g false true then 1 else 2
