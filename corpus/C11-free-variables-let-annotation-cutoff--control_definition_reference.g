# Same shape as trigger_missed.g, but the later definition is mentioned in a
# nested DEFINITION rather than in a nested annotation: rejected by both builds.
x = (
  u : int = t
  v = 4
  u + v
)
t = 1 + 2
x
