# Ill-typed control: the LEFT operand of `>=` is a Boolean. This is rejected
# both with and without the change (only the right operand is affected).
clamp : (int -> int) = n => if true >= n then n else 0

clamp 7
