# Arithmetic helpers (this file was saved with Windows line ends).
add = (x : int) => (y : int) => x + y

flag = true

total = add 1 flag + add 2 3
total
