# Same shape as demo_rejects_right.g, but the alias points BACKWARDS in the group.
b = int
a = b
f : (int -> a) = (x : int) => x + 1

f 41
