# The formation rule for propositional equality
(eq : (a : type) -> (x : a) -> (y : a) -> type) =>

# The introduction rule for propositional equality
(refl : (a : type) -> (x : a) -> eq a x x) =>

# The elimination rule for propositional equality
(eq_ind : (a : type) ->
          (x : a) ->
          (p : a -> type) ->
          p x ->
          (y : a) ->
          eq a x y ->
          p y) =>

# A proof that propositional equality is symmetric
eq_symm : (
  (a : type) ->
  (x : a) ->
  (y : a) ->
  eq a x y ->
  eq a y x
) =
  a =>
  (x : a) =>
  (y : a) =>
  (x_equals_y : eq a x y) =>
    motive = (z : a) => eq a z x
    x_equals_x = refl a x
    eq_ind a x motive x_equals_x y x_equals_y

# A proof that propositional equality is transitive
eq_trans : (
  (a : type) ->
  (x : a) ->
  (y : a) ->
  (z : a) ->
  eq a x y ->
  eq a y z ->
  eq a x z
) =
  a =>
  (x : a) =>
  (y : a) =>
  (z : a) =>
  (x_equals_y : eq a x y) =>
  (y_equals_z : eq a y z) =>
    motive = (w : a) => eq a w z
    y_equals_x = eq_symm a x y x_equals_y
    eq_ind a y motive y_equals_z x y_equals_x

type
