negate = (x : int) => -x
negate 5 + negate (2 * 3) - 1
