# Single-definition group with a variable divisor: unaffected.
d = 3
(100 - 1) / d
