# An alias for an ordinary type, used as domain and codomain; the codomain's type is `type`.
t = int
f : ((x : t) -> t) = x => x + 1
f 2
