# The polymorphic identity function with an implicit type parameter, fully annotated
id : ({a : type} -> a -> a) = {a : type} => (x : a) => x

id
