# No negation at all.
f = (x : int) => (y : int) => x - (y - 1)
g = (h : int -> int) => (y : int) => h (h y)

g (f 10) (12 / (6 / 2))
