# A recursive function defined after a constant that it divides by.
base = 10
digits : (int -> int) = n =>
  if n < base
  then 1
  else 1 + digits (n / base)
digits 12345
