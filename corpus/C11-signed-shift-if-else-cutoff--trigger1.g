# The else branch of the annotation on x mentions a, the variable bound just before x.
(b : bool) => (a : type) => (x : if b then int else a) => x
