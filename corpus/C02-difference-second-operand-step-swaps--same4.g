factorial : (int -> int) = x =>
  if x == 0
  then 1
  else x * factorial (x - 1)

factorial 30
