# One above the boundary: fits in a machine word and the quotient does too.
(0 - 9223372036854775807) / (0 - 1)
