# Same shape as trigger_welltyped.g, but the divisor is not zero.
p : ((q : int -> type) -> q ((6 + 0) / 3) -> q 2) = q => h => h
p
