# Nested group whose body calls an outer function, but that function has no forward reference to
# a later definition of its own group (it only refers to itself and to an earlier definition).
dec : (int -> int) = n => n - 1
count : (int -> int) = n => if n == 0 then 0 else 1 + count (dec n)

1 + (
  k = 5
  count k
)
