x = 1
y = x + 1
y * 2
