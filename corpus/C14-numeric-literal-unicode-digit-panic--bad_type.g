x = 5 + true
x
