t = int
a : t = 3
(x : int) -> (y : a == 3) -> 5
