# A few definitions.
a = 1
b = 2
c = 3
d = 4
e = 5
f = 6
g = 7
h = a + b + c + d + e + f + g + i
h
