# The condition of the outer conditional is x when n == 0 and y otherwise.
# y is an integer (t is a local alias of int), so the inner conditional
# forces x : int and the outer one then needs int = bool: must be rejected.
f = x => (n : int) =>
  t = int
  (y : t) =>
    if (if n == 0 then x else y) then 1 else 2
f true 1 5
