# `a` is defined through a later member of its own group; a third member follows.
a = b
b = int
f : (int -> a) = (x : int) => x + 1

f 41
