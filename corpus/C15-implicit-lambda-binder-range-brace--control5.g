f = {x} => (1 + true)
f
