# A two-definition group under a binder whose definitions do not mention the enclosing binders.
f : (int -> int) = (n : int) =>
  t : type = int
  y : t = 4
  y

f 1
