# The checker is asked whether `3 > 3` is convertible with `false`, the
# literal that running `3 > 3` yields (see trigger_ground.g).
(eq : bool -> bool -> type) =>
(refl : (x : bool) -> eq x x) =>
  (p : eq (3 > 3) false = refl false; p)
