# Control: a direct mismatch is still rejected by both builds.
y : (t = int; u = bool; u) = 5
if y then 1 else 2
