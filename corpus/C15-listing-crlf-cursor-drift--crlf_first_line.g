answer = missing + 1
answer
