f = (x : int) => if x < 0 then 0 - x else x
if f 3 == 3 then true
