g = (a : int) => (b : int) => (c : int) => (a / b) * (c * a)
g 7 2 3
