x = 1
y = (
  x = 2
  x
)
y
