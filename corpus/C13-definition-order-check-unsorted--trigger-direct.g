# One definition uses three later definitions that are not values yet.
f = (x : int) => x + 1
a = f b + f c + f d
b = f 1
c = f 2
d = f 3
a
