x = 3
if x <# 5 then 333 else if x <
  4 then 111 else 222
