x = 5 ²
x
