# The parameter is also mentioned by the body of the group: dependent either way.
(t : type) -> (f : (int -> t) = n => f n; t)
