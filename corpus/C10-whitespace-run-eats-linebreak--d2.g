id = (y : int) => y
id 
(3)
