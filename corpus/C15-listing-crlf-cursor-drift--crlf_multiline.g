# Pick one of two numbers.
limit = 10

choose = (b : bool) =>
  if b
  then limit + 1
  else false

choose true
