# A type-level conditional whose condition is closed
t = if 1 < 2 then int else bool
x : t = 41
id = (a : type) => (y : a) => y
id t (x + 1)
