(1 2) + (true 3)
