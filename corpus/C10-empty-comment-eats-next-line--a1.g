# Two numbers
# and their sum
x = 3
y = 4
x + y
