# Two arguments, but only the last one needs computation.
(vec : int -> int -> type) =>
(v : vec 2 (1 + 2)) =>
(use : vec 2 3 -> int) =>
  use v
