x = y + 1
y = 2 + 3
x
