# Control: the alias is the FIRST name of the block; both builds agree.
s = int
t = bool
u = (
  b = s
  a = 1
  x : b = 5
  x
)
f = (n : int) => n + 1
f u
