# Each offending definition uses exactly one later non-value definition.
f = (x : int) => x + 1
a = f b
b = f c
c = f 3
a
