# Same program; the last operand has been wrapped in redundant parentheses.
settle = (total : int) => (charged : int) => (refunded : int) => (fee : int) =>
  total - (charged - refunded) - (fee)

settle 100 30 10 5
