(t : type) =>
  (v : ((x : type) => (a = 1; b = 2; x)) t) =>
    w : t = v; w
