# Ordinary ill-typed program: a Boolean where an integer is expected.
inc : (int -> int) = x => x + 1
inc true
