f : (int -> int) = (x : int) => if x < 1 then 1 else x * f (x - 1)
f 5
