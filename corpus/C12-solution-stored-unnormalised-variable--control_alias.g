# The alias t is defined OUTSIDE the binder of x, so it is in scope where the
# hole (the type of x) was written. Both builds accept this; the changed build
# records t rather than int as the solution, which is definitionally the same.
t = int
f = x => (y : t) => if true then x else y
f 3 4
