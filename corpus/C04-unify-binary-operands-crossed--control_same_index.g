# Same shape, but the two indices really are the same: accepted by both builds.
keep : ((p : int -> type) -> (x : int) -> (y : int) -> p (x + x) -> p (x + x)) =
  p => x => y => v => v

keep (n => if n == 0 then int else bool) 0 1 5
