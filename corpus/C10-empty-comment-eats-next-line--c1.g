x = 3 # three
y = 4
x + y
