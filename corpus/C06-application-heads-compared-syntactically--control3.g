# Genuinely different first arguments: rejected by both builds.
(vec : int -> int -> type) =>
(v : vec 1 3) =>
(use : vec 2 3 -> int) =>
  use v
