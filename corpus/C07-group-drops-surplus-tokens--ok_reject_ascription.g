# Not in the grammar (`x : int` without `=` is an unfinished definition): both builds reject.
x = 4
(x : int) * 2
