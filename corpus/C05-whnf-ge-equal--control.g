# Same shape as demo.g, but the compared integers differ, so the change is not
# triggered. This must be accepted both with and without the change.
id : ((a : type) -> a -> a) = (a : type) => (x : a) => x
succ : ((if 3 >= 2 then int else bool) -> int) =
  (x : if 3 >= 2 then int else bool) => x + 1
succ (id (if 1 >= 2 then bool else int) 3)
