# A function whose parameter type depends on a Boolean.
f = (b : bool) => (x : if b then int else bool) => x

# Ill-typed: the annotation's domain differs from f's in the else branch
# (type vs. bool), so g is not allowed to be defined as f.
g : ((b : bool) -> (if b then int else type) -> (if b then int else bool)) = f

# With the bad annotation accepted, a type is smuggled in as a Boolean.
if g false int then 1 else 2
