# A type alias that refers forward to a later member of the same group,
# used underneath two lambda binders.
u = t
t = int
f = (y : bool) => (x : u) => x + 1

f true 2
