# Holes for `a`, for `_` and for the annotation of `pick`; all get finite solutions.
id = a => (x : a) => x
pick : _ = x => (n : int) => if n == 0 then x else 7

pick (id _ 5) 0
