# Mutual recursion where the second function has a local definition.
is_even : (int -> bool) = (n : int) =>
  if n == 0 then true else is_odd (n - 1)

is_odd : (int -> bool) = (n : int) => (
  m = n - 1
  if n == 0 then false else is_even m
)

# 7 is odd: true
is_odd 7
