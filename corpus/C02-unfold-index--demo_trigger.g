# A self-recursive definition that also uses a helper defined LATER in the same group.
# Semantics: countdown n = pred (pred (... (pred 0))) = -n, so the answer is -3.
countdown : (int -> int) = n =>
  if n <= 0
  then 0
  else pred (countdown (n - 1))

pred : (int -> int) = k => k - 1

countdown 3
