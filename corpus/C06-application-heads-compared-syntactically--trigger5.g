# A hole in a non-last argument of a neutral application is no longer solved.
(pair : type -> type -> type) =>
(mk : (a : type) -> (b : type) -> pair a b) =>
(use : pair int bool -> int) =>
  use (mk _ bool)
