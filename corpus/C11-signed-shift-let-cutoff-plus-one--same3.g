# A group of two local definitions that is never moved beneath another binder
# and is not reached through a recursive call. Both builds agree.
g = (x : int) =>
  a = x + 1
  b = a * 2
  b

g 3
