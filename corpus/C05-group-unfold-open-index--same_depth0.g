y : int = (
  rep : (int -> type) = (n : int) => if n == 0 then int else rep (n - 1)
  x : rep 0 = 5
  x
)
y
