x = x + 1; x
