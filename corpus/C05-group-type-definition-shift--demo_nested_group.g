f : ((a : type) -> a -> a) = (a : type) => (x : a) =>
  t : type = a
  y : t = x
  y

f int 3
