id : ((a : type) -> a -> a) = (a : type) => (x : a) => x
three = 1 + 2
double : (int -> int) = n => n * 2

id int (double three)
