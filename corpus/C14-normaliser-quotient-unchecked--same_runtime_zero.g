# Division by zero at the term level only: its type is just `int`, so the
# checker never has to normalise the quotient.
x = 1 / 0
x
