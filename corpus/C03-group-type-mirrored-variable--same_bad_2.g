# Ill-typed: a definition that does not match its annotation, and mismatched branches.
n : bool = 3
if n then 1 else false
