# A one-definition group under two binders, with a type that depends on the group.
f : ((a : type) -> a -> a) = (a : type) => (x : a) =>
  t : type = a
  (((z : t) => z) x)

f int 3
