even : (int -> bool) = n => if n == 0 then true else odd (n - 1)
odd : (int -> bool) = n => if n == 0 then false else even (n - 1)
r = even 10
if r then 1 else 0
