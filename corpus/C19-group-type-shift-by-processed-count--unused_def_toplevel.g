# Ordinary: unused definition added at the top level (closed group).
z = 0
t = int
id = (x : t) => x

id 3
