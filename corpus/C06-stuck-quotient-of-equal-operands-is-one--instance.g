# The instance of trigger.g at n = 0: `0 / 0` is stuck, never 1.
f = (P : int -> type) => (x : P (0 / 0)) => ((y : P 1) => y) x
0
