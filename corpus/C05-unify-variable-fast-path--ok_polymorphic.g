# Polymorphic, higher-order, and dependent definitions with no second alias.
id : ((t : type) -> t -> t) = (t : type) => (v : t) => v

twice : ((t : type) -> (t -> t) -> t -> t) =
  (t : type) => (g : t -> t) => (v : t) => g (g v)

succ : (int -> int) = (n : int) => n + 1

twice int succ (id int 5)
