# Ill typed: `b` is an inhabitant of `t`, not a type, so it cannot be a codomain.
u = type
(t : type) => (b : t) => (x : int) -> b
