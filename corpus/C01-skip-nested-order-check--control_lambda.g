((u : int) => (
  x = y + 1
  y = u + 1
  x
)) 0
