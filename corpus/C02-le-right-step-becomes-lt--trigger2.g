limit : int = 5

count_up : (int -> int) = i =>
  if i <= limit - 1
  then count_up (i + 1)
  else i

count_up 0
