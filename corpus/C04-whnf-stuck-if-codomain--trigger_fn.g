# Same as trigger.g but the program is the function itself
ty = (b : bool) => if b then int else bool
f : ((b : bool) -> ty b -> ty b) = (b : bool) => (x : ty b) => x
h = (b : bool) => (x : ty b) => f b x
h false
