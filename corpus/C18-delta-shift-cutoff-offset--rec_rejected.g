# A recursive type-level function, unfolded underneath two lambda binders.
rep : (int -> type) = n => if n == 0 then int else rep (n - 1)
f = (y : bool) => (x : rep 1) => x + 1

f true 2
