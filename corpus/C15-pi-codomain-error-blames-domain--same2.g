# A variable that is not in scope
f = (x : int) => x
f y
