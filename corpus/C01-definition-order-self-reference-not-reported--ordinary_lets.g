a = 2 + 3
b = a * a
f = (u : int) => u + b
f a
