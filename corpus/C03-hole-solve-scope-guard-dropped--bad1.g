# Ill typed: the two branches of the conditional have types int and bool.
(x => y => if true then x else y) 1 true
