# Redundant parentheses elsewhere are harmless in both builds.
settle = (total : int) => (charged : int) => (refunded : int) => (fee : int) =>
  ((total) - ((charged - refunded)) - fee)

(settle 100 (30) 10) (5)
