# Same shape, but the else branch mentions a variable that is not the innermost one.
(a : type) => (b : bool) => (x : if b then int else a) => x
