# A negated value as the left factor of a quotient and of a product.
a = 7
b = (-a) / 2

(-b) * a
