# Same function as trigger4.g, positive start.
steps : (int -> int -> int) = (n : int) => (k : int) =>
  if n == 0
  then k
  else steps (n / 2) (k + 1)

steps 5 0
