# An ill-typed argument
double = (x : int) => x + x

double true
