x = y + 1
y = 0 + 1
x
