# Well-typed: a two-definition group whose body's type does not mention the group's variables.
f = (
  a = int
  b = bool
  (x : int) => x + 1
)

f 41
