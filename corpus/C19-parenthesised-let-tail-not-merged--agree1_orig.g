a = 1
b = a + 2
a * b
