if true 1 else 2
