# A genuine scope escape: t is bound inside the binder of x, so the type of x
# cannot be t. Both builds must reject this.
x => (t : type) => (y : t) => if true then x else y
