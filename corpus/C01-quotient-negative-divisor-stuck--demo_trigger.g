# Average of the two most recent temperature readings, rounded toward zero.
# The divisor is the (negative) scale factor of the sensor.
scale = 0 - 2
average : (int -> int -> int) = a => b => (a + b) / scale

average 6 8
