# One below the boundary: does not fit in a machine word.
(0 - 9223372036854775809) / (0 - 1)
