# Same block: u is 5 and has type int, so passing it to a function on bool
# must be rejected.
s = int
t = bool
u = (
  a = 1
  b = s
  x : b = 5
  x
)
g = (n : bool) => if n then 1 else 0
g u
