num = int
x : num = 3
flag = bool

x
