(g : type) => (f : type) => (z : (a : type) -> _) => ((w : (a : type) -> f) => w) z
