# Same program; the last operand has been wrapped in redundant parentheses.
pick = (n : int) => if n == 6 then int else bool
v : pick (10 - (5 - 2) - (1)) = 42
v + 1
