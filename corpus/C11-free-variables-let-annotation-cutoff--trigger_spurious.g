# A local type alias used in an annotation inside a definition that is not a value.
x = (
  u : t = 3
  t = int
  u + 1
)
x
