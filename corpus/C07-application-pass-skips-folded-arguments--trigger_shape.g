# The value is a lambda, so `gram run` prints the tree the parser built. By grammar.y the
# argument `(h a 1)` is `(h a) 1`, which is ill typed for these annotations; the reading
# `h (a 1)` is well typed.
(a : int -> int) => (h : int -> int) => (f : int -> int -> int) => f (h a 1) 3
