# Closed arithmetic in a type: both builds compute it.
t = (n : int) => if n + n == 4 then int else bool
x : t 2 = 7
x * 6
