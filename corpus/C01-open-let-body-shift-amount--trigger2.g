# Same shape inside a function body: a forward reference from `double_then` to `bump`,
# and a nested group (under `+`) whose body calls `double_then`.
f : (int -> int) = x => (
  double_then : (int -> int) = y => bump (y * 2)
  bump : (int -> int) = z => z + 1
  1 + (
    seven = 7
    double_then x + seven
  )
)

f 10
