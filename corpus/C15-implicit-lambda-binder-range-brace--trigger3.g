# binder on its own line, after non-ASCII text and several lines
été = 1
h = (été + 1) * 2
k = {
  été
} => été
k
