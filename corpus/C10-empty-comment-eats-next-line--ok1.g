# identity applied
id = (a : type) => (v : a) => v # polymorphic


# use it
id int 42
