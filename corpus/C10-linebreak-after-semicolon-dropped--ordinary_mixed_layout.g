# layout
id = (a : type) =>
  (x : a) =>
    x # body


y = (
  1 +
  2
)
id int y
