twice = (f : int -> int) => (x : int) => f (f x)
twice ((n : int) => n - (n - 3) - 1) 20
