u = type
t = int
a : t = 3
(x : int) -> a
