g = (z : int) => z * 2
a = 1 + 2
f = (x : int) => x + a
y = f 1
g y
