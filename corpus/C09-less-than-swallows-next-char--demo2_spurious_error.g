x = 3
y = 7
if x<y then 111 else 222
