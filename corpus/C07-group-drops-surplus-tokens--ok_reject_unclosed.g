# Not in the grammar (parenthesis never closed): both builds reject.
x = 4
(x + 1 * 2
