a = (
  t = 3
  t + 1
)
b = (
  t = 4
  t + 1
)
a + b
