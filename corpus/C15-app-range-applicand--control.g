# Same kind of fault, but the last argument is not parenthesized.
both = (x : int) => (y : int) => x == y

1 + both 2 3
