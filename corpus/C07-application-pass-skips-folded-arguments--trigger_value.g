# A parenthesised application with two arguments in a non-final argument position.
first = (x : int) => (y : int) => x
sub = (x : int) => (y : int) => x - y

first (sub 10 3) 0
