# Ordinary use of function types and of `_` outside a function type.
compose = (f : int -> int) => (g : int -> int) => (x : int) => f (g x)
twice : ((int -> int) -> int -> int) = f => compose f f
inc = (x : _) => x + 1
twice inc 5
