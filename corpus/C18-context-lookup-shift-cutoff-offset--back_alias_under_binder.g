# Same as fwd_alias_under_binder.g but with the alias declared first.
t = int
x : t = 3
f = (y : int) => x + y

f 4
