# The group in the annotation binds `t`; the definition must not see it.
k : (t = int; t) = (z : int) => t
k
