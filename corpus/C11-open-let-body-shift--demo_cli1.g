(t : type) =>
  (v : ((x : type) => (a = 1; x)) t) =>
    w : t = v; w
