(if true then 1) + 2
