ab = 1
ab
