# Ordinary: polymorphic identity, annotation of the second parameter mentions the first.
id : ((a : type) -> a -> a) = (a : type) => (x : a) => x

id int 7
