f : (int -> int) = (n : int) => if n < 1 then 1 else n * f (n - 1)
f 5
