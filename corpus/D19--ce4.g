p = (g : type) => (f : type) => (z : (a : type) -> _) => ((w : (a : type) -> f) => w) z
r = p int bool ((a : type) => 5)
if r int then 1 else 2
