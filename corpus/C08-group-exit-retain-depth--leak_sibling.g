# Two sibling scopes re-use the local name `t`. This is well-formed: the first `t` is out of scope
# again when the second group is entered.
a = (t = 1; t + 1)
b = (t = 2; t + 2)
a + b
