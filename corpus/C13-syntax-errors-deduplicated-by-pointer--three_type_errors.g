f = (a : int) => a + true
g = (b : bool) => b + 1
f (g 2)
