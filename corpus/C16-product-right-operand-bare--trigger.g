f = (a : int) => (b : int) => (c : int) => a * (b / c)
f 2 3 2
