# Three definitions in one group reuse names that are already bound by the
# enclosing lambdas, so the program is rejected with three diagnostics of the
# kind "Variable ... already exists."
(alpha : int) => (beta : int) => (gamma : int) => (
  alpha = 1
  beta = 2
  gamma = 3
  alpha + beta + gamma
)
