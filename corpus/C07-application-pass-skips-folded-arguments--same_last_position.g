# The parenthesised two-argument application is the LAST argument, the head of an
# application, or not an argument at all: unaffected.
first = (x : int) => (y : int) => x
sub = (x : int) => (y : int) => x - y
add3 = (x : int) => (y : int) => (z : int) => x + y + z

(add3 1 2) 3 + sub 0 (sub 10 3) + (sub 10 3) * first 2 (add3 1 1 1)
