# Ill typed: the then-branch has type int, the else-branch has type t (an abstract type).
(x => (t : type) => (y : t) => if true then x else y) 1 bool true
