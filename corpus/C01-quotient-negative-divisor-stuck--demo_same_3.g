# Division by zero: the one permitted way to stop. Both builds stop the same way.
safe = (d : int) => 100 / d

safe 0
