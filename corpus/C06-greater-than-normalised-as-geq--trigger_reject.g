# A type computed by a strict comparison of two equal literals.
# 3 > 3 is false, so t is bool and the definition of x is well typed.
t = if 3 > 3 then int else bool
x : t = true
x
