# Mismatched branches and a bad condition
g = (n : int) =>
  if n then 1 else false
g 4
