h = (a : int) => (b : int) => (c : int) => ((a * b) / c) * a
h 2 3 2
