# The codomain of the annotation is left for the checker to infer.
f : (int -> _) = x => x + 1
f 2
