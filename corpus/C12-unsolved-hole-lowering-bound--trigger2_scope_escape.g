(z : _) => (x : type) => (w : _) =>
  r = if true then z else ((y1 : int) => (y2 : int) => w)
  q : x = w
  r
