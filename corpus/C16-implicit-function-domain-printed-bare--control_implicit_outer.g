id : ({a : type} -> a -> a) = {a : type} => (x : a) => x
id
