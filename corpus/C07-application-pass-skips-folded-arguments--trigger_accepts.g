# `inc inc 1` is `(inc inc) 1` by grammar.y and must be rejected by the type checker.
inc = (x : int) => x + 1
first = (x : int) => (y : int) => x

first (inc inc 1) 0
