# The whole application `both 2 (1 + 2)` is a Boolean used as a summand.
both = (x : int) => (y : int) => x == y

1 + both 2 (1 + 2)
