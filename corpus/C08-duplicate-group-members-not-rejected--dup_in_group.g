x = 1
x = 2
x
