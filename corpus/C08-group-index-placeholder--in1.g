# A group in which `_` is a member (a definition evaluated only for its value being discarded).
# `x` must denote 1.
_ = 5
x = 1
x
