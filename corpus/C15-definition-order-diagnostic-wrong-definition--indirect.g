# `total` is computed immediately, through the function `scale`, which uses `factor`.
total = scale 10
scale = (x : int) => x * factor
factor = 2 + 3
total
