a = 1 + 2
u = 7 * 6
f = (x : int) => if true then ((t : int) => t) (x + (a)) else 0
f 4
