# `x = 1; y = 2; y` evaluates to 2 and `x = 1; x` evaluates to 1, so a value of type
# `p 2` must not be accepted where a `p 1` is expected.
coerce : (
  (p : int -> type) ->
  p (x = 1; y = 2; y) ->
  p (x = 1; x)
) =
  p => h => h

type
