# Ill typed in an ordinary way: 3 is not a type.
(x : int) -> 3
