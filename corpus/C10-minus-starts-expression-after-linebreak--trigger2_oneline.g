f = (x : int) => x - 1
f 5
