# Nested group whose names are all distinct from later ones, plus sibling lambdas re-using `x`.
a = (u = 1; v = 2; u + v)
f = (x : int) => x + a
h = (x : int) => x * 2
f (h 3)
