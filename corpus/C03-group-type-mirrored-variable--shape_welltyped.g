# Same group, used correctly.
f = (
  a = int
  b = bool
  (x : a) => x + 1
)

f 41
