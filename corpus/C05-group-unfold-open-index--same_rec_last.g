y : int = (
  x : rep 2 = 5
  rep : (int -> type) = (n : int) => if n == 0 then int else rep (n - 1)
  x
)
y
