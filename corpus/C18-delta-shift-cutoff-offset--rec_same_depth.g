# The same recursive type-level function, but only ever unfolded at the depth of its own group.
rep : (int -> type) = n => if n == 0 then int else rep (n - 1)
x : rep 1 = 2

x + 1
