# Not a sentence of grammar.y: after the complete term `n * 2` the group must close, but `= 15` follows
# (e.g. a typo for `==`). The changed build drops `= 15` and evaluates `n * 2`.
n = 7
if true then (n * 2 = 15) else 0
