# Well-typed: a three-definition group whose body's type mentions only the middle variable.
f = (
  p = 1
  a = int
  q = 2
  (x : a) => x + p + q
)

f 39
