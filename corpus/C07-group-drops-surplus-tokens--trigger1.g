# Not a sentence of grammar.y: after the complete term `x + 1` the group must close, but `: int` follows.
x = 4
(x + 1 : int) * 2
