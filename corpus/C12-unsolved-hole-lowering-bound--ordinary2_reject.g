# An ordinary scope escape through a variable (not through a hole): rejected.
(z : _) => (x : type) => (w : x) =>
  if true then z else ((y1 : int) => (y2 : int) => w)
