x = 1
f = {x : int} => x
f
