# Well typed: untyped parameters whose types are forced by arithmetic.
(x => y => if x < y then x + 1 else y) 1 2
