(* Feasibility sketch: verified checker for a core fragment (no groups, no holes). *)
From Coq Require Import List ZArith Lia Bool Relations.
Import ListNotations.

Inductive term :=
| TType | TInt | TLit (z : Z) | TVar (i : nat)
| TLam (dom body : term) | TPi (dom cod : term) | TApp (f a : term)
| TSum (a b : term).

Fixpoint ushift (t : term) (c n : nat) : term :=
  match t with
  | TType | TInt | TLit _ => t
  | TVar i => if Nat.leb c i then TVar (i + n) else TVar i
  | TLam d b => TLam (ushift d c n) (ushift b (S c) n)
  | TPi d b => TPi (ushift d c n) (ushift b (S c) n)
  | TApp f a => TApp (ushift f c n) (ushift a c n)
  | TSum a b => TSum (ushift a c n) (ushift b c n)
  end.

Fixpoint open (t : term) (i : nat) (s : term) (k : nat) : term :=
  match t with
  | TType | TInt | TLit _ => t
  | TVar j => if Nat.eqb j i then ushift s 0 k else if Nat.ltb i j then TVar (j - 1) else TVar j
  | TLam d b => TLam (open d i s k) (open b (S i) s (S k))
  | TPi d b => TPi (open d i s k) (open b (S i) s (S k))
  | TApp f a => TApp (open f i s k) (open a i s k)
  | TSum a b => TSum (open a i s k) (open b i s k)
  end.

(* context entry: (type, offset, optional definition) ; head = innermost *)
Definition entry := (term * nat * option term)%type.
Definition ctx := list entry.

Definition lookup_ty (G : ctx) (i : nat) : option term :=
  match nth_error G i with Some (T, k, _) => Some (ushift T 0 (i + 1 - k)) | None => None end.
Definition lookup_def (G : ctx) (i : nat) : option term :=
  match nth_error G i with Some (_, k, Some d) => Some (ushift d 0 (i + 1 - k)) | _ => None end.

Inductive red (G : ctx) : term -> term -> Prop :=
| r_beta d b a : red G (TApp (TLam d b) a) (open b 0 a 0)
| r_delta i d : lookup_def G i = Some d -> red G (TVar i) d
| r_sum x y : red G (TSum (TLit x) (TLit y)) (TLit (x + y))
| r_app1 f f' a : red G f f' -> red G (TApp f a) (TApp f' a)
| r_app2 f a a' : red G a a' -> red G (TApp f a) (TApp f a')
| r_sum1 a a' b : red G a a' -> red G (TSum a b) (TSum a' b)
| r_sum2 a b b' : red G b b' -> red G (TSum a b) (TSum a b')
| r_lam1 d d' b : red G d d' -> red G (TLam d b) (TLam d' b)
| r_lam2 d b b' : red ((d, 0, None) :: G) b b' -> red G (TLam d b) (TLam d b')
| r_pi1 d d' b : red G d d' -> red G (TPi d b) (TPi d' b)
| r_pi2 d b b' : red ((d, 0, None) :: G) b b' -> red G (TPi d b) (TPi d b').

(* definitional equality: equivalence closure of red, plus lambda annotations are irrelevant *)
Inductive conv (G : ctx) : term -> term -> Prop :=
| c_red a b : red G a b -> conv G a b
| c_refl a : conv G a a
| c_sym a b : conv G a b -> conv G b a
| c_trans a b c : conv G a b -> conv G b c -> conv G a c
| c_ann d d' b b' : conv ((d, 0, None) :: G) b b' -> conv G (TLam d b) (TLam d' b')
| c_pi d d' b b' : conv G d d' -> conv ((d, 0, None) :: G) b b' -> conv G (TPi d b) (TPi d' b')
| c_app f f' a a' : conv G f f' -> conv G a a' -> conv G (TApp f a) (TApp f' a')
| c_sum a a' b b' : conv G a a' -> conv G b b' -> conv G (TSum a b) (TSum a' b').

Inductive has_type (G : ctx) : term -> term -> Prop :=
| t_type : has_type G TType TType
| t_int : has_type G TInt TType
| t_lit z : has_type G (TLit z) TInt
| t_var i T : lookup_ty G i = Some T -> has_type G (TVar i) T
| t_lam d b B : has_type G d TType -> has_type ((d, 0, None) :: G) b B -> has_type G (TLam d b) (TPi d B)
| t_pi d b : has_type G d TType -> has_type ((d, 0, None) :: G) b TType -> has_type G (TPi d b) TType
| t_app f a A B : has_type G f (TPi A B) -> has_type G a A -> has_type G (TApp f a) (open B 0 a 0)
| t_sum a b : has_type G a TInt -> has_type G b TInt -> has_type G (TSum a b) TInt
| t_conv t A B : has_type G t A -> conv G A B -> has_type G t B.

(* ---- executable checker ---- *)
Fixpoint whnf (fuel : nat) (G : ctx) (t : term) : option term :=
  match fuel with O => None | S fuel =>
  match t with
  | TVar i => match lookup_def G i with Some d => whnf fuel G d | None => Some t end
  | TApp f a =>
      match whnf fuel G f with
      | Some (TLam _ b) => whnf fuel G (open b 0 a 0)
      | Some f' => Some (TApp f' a)
      | None => None end
  | TSum a b =>
      match whnf fuel G a, whnf fuel G b with
      | Some (TLit x), Some (TLit y) => Some (TLit (x + y))
      | Some a', Some b' => Some (TSum a' b')
      | _, _ => None end
  | _ => Some t
  end end.

Fixpoint convb (fuel : nat) (G : ctx) (a b : term) : option bool :=
  match fuel with O => None | S fuel =>
  match whnf fuel G a, whnf fuel G b with
  | Some a', Some b' =>
    match a', b' with
    | TType, TType | TInt, TInt => Some true
    | TLit x, TLit y => Some (Z.eqb x y)
    | TVar i, TVar j => Some (Nat.eqb i j)
    | TLam d1 b1, TLam d2 b2 => convb fuel ((d1, 0, None) :: G) b1 b2
    | TPi d1 b1, TPi d2 b2 =>
        match convb fuel G d1 d2 with
        | Some true => convb fuel ((d1, 0, None) :: G) b1 b2
        | r => r end
    | TApp f1 a1, TApp f2 a2 =>
        match convb fuel G f1 f2 with Some true => convb fuel G a1 a2 | r => r end
    | TSum x1 y1, TSum x2 y2 =>
        match convb fuel G x1 x2 with Some true => convb fuel G y1 y2 | r => r end
    | _, _ => Some false
    end
  | _, _ => None end end.

Fixpoint infer (fuel : nat) (G : ctx) (t : term) : option term :=
  match fuel with O => None | S fuel =>
  match t with
  | TType | TInt => Some TType
  | TLit _ => Some TInt
  | TVar i => lookup_ty G i
  | TLam d b =>
      match infer fuel G d with
      | Some Td => match convb fuel G Td TType with
                   | Some true => match infer fuel ((d, 0, None) :: G) b with
                                  | Some B => Some (TPi d B) | None => None end
                   | _ => None end
      | None => None end
  | TPi d b =>
      match infer fuel G d with
      | Some Td => match convb fuel G Td TType with
        | Some true => match infer fuel ((d, 0, None) :: G) b with
           | Some Tb => match convb fuel ((d, 0, None) :: G) Tb TType with Some true => Some TType | _ => None end
           | None => None end
        | _ => None end
      | None => None end
  | TApp f a =>
      match infer fuel G f with
      | Some F => match whnf fuel G F with
        | Some (TPi A B) => match infer fuel G a with
            | Some A' => match convb fuel G A' A with Some true => Some (open B 0 a 0) | _ => None end
            | None => None end
        | _ => None end
      | None => None end
  | TSum a b =>
      match infer fuel G a, infer fuel G b with
      | Some Ta, Some Tb =>
          match convb fuel G Ta TInt, convb fuel G Tb TInt with
          | Some true, Some true => Some TInt | _, _ => None end
      | _, _ => None end
  end end.

(* ---- soundness ---- *)
Definition rstar G := clos_refl_trans term (red G).

Lemma rstar_conv G a b : rstar G a b -> conv G a b.
Proof. induction 1; eauto using conv. Qed.

Lemma rstar_app1 G f f' a : rstar G f f' -> rstar G (TApp f a) (TApp f' a).
Proof. induction 1; [apply rt_step; now constructor | apply rt_refl | eapply rt_trans; eauto]. Qed.
Lemma rstar_sum G a a' b b' : rstar G a a' -> rstar G b b' -> rstar G (TSum a b) (TSum a' b').
Proof.
  intros Ha Hb. apply rt_trans with (TSum a' b).
  - induction Ha; [apply rt_step; now constructor | apply rt_refl | eapply rt_trans; eauto].
  - induction Hb; [apply rt_step; now constructor | apply rt_refl | eapply rt_trans; eauto].
Qed.

Lemma whnf_sound : forall fuel G t u, whnf fuel G t = Some u -> rstar G t u.
Proof.
  induction fuel as [|fuel IH]; intros G t u H; [discriminate|].
  destruct t; cbn [whnf] in H; try (injection H as <-; apply rt_refl).
  - (* var *) destruct (lookup_def G i) eqn:E.
    + eapply rt_trans; [apply rt_step, r_delta; exact E | apply IH; exact H].
    + injection H as <-; apply rt_refl.
  - (* app *) destruct (whnf fuel G t1) as [f'|] eqn:E; [|discriminate].
    apply IH in E.
    destruct f'; try (injection H as <-; now apply rstar_app1).
    eapply rt_trans; [apply rstar_app1; eauto|].
    eapply rt_trans; [apply rt_step, r_beta | apply IH; exact H].
  - (* sum *) destruct (whnf fuel G t1) as [a'|] eqn:E1; [|discriminate].
    destruct (whnf fuel G t2) as [b'|] eqn:E2; [|destruct a'; discriminate].
    apply IH in E1; apply IH in E2.
    assert (S0 : rstar G (TSum t1 t2) (TSum a' b')) by now apply rstar_sum.
    destruct a'; try (injection H as <-; exact S0);
    destruct b'; try (injection H as <-; exact S0).
    injection H as <-. eapply rt_trans; [exact S0 | apply rt_step, r_sum].
Qed.

Lemma convb_sound : forall fuel G a b, convb fuel G a b = Some true -> conv G a b.
Proof.
  induction fuel as [|fuel IH]; intros G a b H; [discriminate|].
  cbn [convb] in H.
  destruct (whnf fuel G a) as [a'|] eqn:Ea; [|discriminate].
  destruct (whnf fuel G b) as [b'|] eqn:Eb; [|discriminate].
  apply whnf_sound, rstar_conv in Ea. apply whnf_sound, rstar_conv in Eb.
  assert (K : conv G a' b' -> conv G a b) by (intro; eauto using conv).
  apply K; clear K Ea Eb.
  destruct a', b'; try discriminate; try apply c_refl.
  - injection H as H. apply Z.eqb_eq in H. subst. apply c_refl.
  - injection H as H. apply Nat.eqb_eq in H. subst. apply c_refl.
  - apply c_ann. eauto.
  - destruct (convb fuel G a'1 b'1) as [[|]|] eqn:E; try discriminate. apply c_pi; eauto.
  - destruct (convb fuel G a'1 b'1) as [[|]|] eqn:E; try discriminate. apply c_app; eauto.
  - destruct (convb fuel G a'1 b'1) as [[|]|] eqn:E; try discriminate. apply c_sum; eauto.
Qed.

Theorem infer_sound : forall fuel G t T, infer fuel G t = Some T -> has_type G t T.
Proof.
  induction fuel as [|fuel IH]; intros G t T H; [discriminate|].
  destruct t; cbn [infer] in H.
  - injection H as <-; constructor.
  - injection H as <-; constructor.
  - injection H as <-; constructor.
  - now constructor.
  - destruct (infer fuel G t1) as [Td|] eqn:E1; [|discriminate].
    destruct (convb fuel G Td TType) as [[|]|] eqn:C1; try discriminate.
    destruct (infer fuel ((t1,0,None)::G) t2) as [B|] eqn:E2; [|discriminate].
    injection H as <-. apply t_lam; eauto using t_conv, convb_sound.
  - destruct (infer fuel G t1) as [Td|] eqn:E1; [|discriminate].
    destruct (convb fuel G Td TType) as [[|]|] eqn:C1; try discriminate.
    destruct (infer fuel ((t1,0,None)::G) t2) as [Tb|] eqn:E2; [|discriminate].
    destruct (convb fuel ((t1,0,None)::G) Tb TType) as [[|]|] eqn:C2; try discriminate.
    injection H as <-. apply t_pi; eauto using t_conv, convb_sound.
  - destruct (infer fuel G t1) as [F|] eqn:E1; [|discriminate].
    destruct (whnf fuel G F) as [[ | | | | |A B| | ]|] eqn:W; try discriminate.
    destruct (infer fuel G t2) as [A'|] eqn:E2; [|discriminate].
    destruct (convb fuel G A' A) as [[|]|] eqn:C; try discriminate.
    injection H as <-.
    eapply t_app.
    + eapply t_conv; [eauto|]. apply rstar_conv, whnf_sound with fuel; exact W.
    + eapply t_conv; [eauto|]. eapply convb_sound; eauto.
  - destruct (infer fuel G t1) as [Ta|] eqn:E1; [|discriminate].
    destruct (infer fuel G t2) as [Tb|] eqn:E2; [|discriminate].
    destruct (convb fuel G Ta TInt) as [[|]|] eqn:C1; try discriminate.
    destruct (convb fuel G Tb TInt) as [[|]|] eqn:C2; try discriminate.
    injection H as <-. apply t_sum; eauto using t_conv, convb_sound.
Qed.
Print Assumptions infer_sound.

(* non-vacuity: polymorphic identity applied *)
Example id_app :
  infer 20 [] (TApp (TApp (TLam TType (TLam (TVar 0) (TVar 0))) TInt) (TLit 3)) = Some TInt.
Proof. vm_compute. reflexivity. Qed.
