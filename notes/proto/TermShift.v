From Coq Require Import List ZArith Lia Bool.
Import ListNotations.

Inductive binop := OSum | ODiff | OProd | OQuot | OLt | OLe | OEq | OGt | OGe.

Inductive term :=
| THole (shift : nat)
| TType | TInt | TBool | TTrue | TFalse
| TLit (z : Z)
| TVar (i : nat)
| TLam (impl : bool) (dom body : term)
| TPi (impl : bool) (dom cod : term)
| TApp (f a : term)
| TLet (defs : list (term * term)) (body : term)
| TNeg (a : term)
| TBin (o : binop) (a b : term)
| TIf (c t e : term).

Section ind.
  Variable P : term -> Prop.
  Hypotheses
    (Hhole : forall s, P (THole s)) (Hty : P TType) (Hint : P TInt) (Hbool : P TBool)
    (Htrue : P TTrue) (Hfalse : P TFalse) (Hlit : forall z, P (TLit z)) (Hvar : forall i, P (TVar i))
    (Hlam : forall i d b, P d -> P b -> P (TLam i d b))
    (Hpi : forall i d b, P d -> P b -> P (TPi i d b))
    (Happ : forall f a, P f -> P a -> P (TApp f a))
    (Hlet : forall ds b, Forall (fun p => P (fst p) /\ P (snd p)) ds -> P b -> P (TLet ds b))
    (Hneg : forall a, P a -> P (TNeg a))
    (Hbin : forall o a b, P a -> P b -> P (TBin o a b))
    (Hif : forall c t e, P c -> P t -> P e -> P (TIf c t e)).
  Fixpoint term_ind' (t : term) : P t :=
    match t with
    | THole s => Hhole s | TType => Hty | TInt => Hint | TBool => Hbool | TTrue => Htrue | TFalse => Hfalse
    | TLit z => Hlit z | TVar i => Hvar i
    | TLam i d b => Hlam i d b (term_ind' d) (term_ind' b)
    | TPi i d b => Hpi i d b (term_ind' d) (term_ind' b)
    | TApp f a => Happ f a (term_ind' f) (term_ind' a)
    | TLet ds b => Hlet ds b
        ((fix go (l : list (term*term)) : Forall (fun p => P (fst p) /\ P (snd p)) l :=
            match l with [] => Forall_nil _ | p::l' => Forall_cons p (conj (term_ind' (fst p)) (term_ind' (snd p))) (go l') end) ds)
        (term_ind' b)
    | TNeg a => Hneg a (term_ind' a)
    | TBin o a b => Hbin o a b (term_ind' a) (term_ind' b)
    | TIf c t e => Hif c t e (term_ind' c) (term_ind' t) (term_ind' e)
    end.
End ind.

Definition obind {A B} (o : option A) (f : A -> option B) := match o with Some a => f a | None => None end.
Notation "x <- o ;; k" := (obind o (fun x => k)) (at level 60, o at next level, right associativity).

Definition omap {A B} (f : A -> option B) : list A -> option (list B) :=
  fix go l := match l with [] => Some [] | a :: l' => match f a with None => None | Some b => match go l' with None => None | Some bs => Some (b :: bs) end end end.

Definition shift_idx (i cutoff : nat) (amount : Z) : option nat :=
  if Nat.leb cutoff i then
    let n := (Z.of_nat i + amount)%Z in
    if (Z.of_nat cutoff <=? n)%Z then Some (Z.to_nat n) else None
  else Some i.

Fixpoint sshift (t : term) (cutoff : nat) (amount : Z) : option term :=
  match t with
  | THole s => s' <- shift_idx s cutoff amount ;; Some (THole s')
  | TType | TInt | TBool | TTrue | TFalse | TLit _ => Some t
  | TVar i => i' <- shift_idx i cutoff amount ;; Some (TVar i')
  | TLam im d b => d' <- sshift d cutoff amount ;; b' <- sshift b (S cutoff) amount ;; Some (TLam im d' b')
  | TPi im d b => d' <- sshift d cutoff amount ;; b' <- sshift b (S cutoff) amount ;; Some (TPi im d' b')
  | TApp f a => f' <- sshift f cutoff amount ;; a' <- sshift a cutoff amount ;; Some (TApp f' a')
  | TLet ds b =>
      let c := cutoff + length ds in
      ds' <- omap (fun p => let '(a, d) := p in a' <- sshift a c amount ;; d' <- sshift d c amount ;; Some (a', d')) ds ;;
      b' <- sshift b c amount ;; Some (TLet ds' b')
  | TNeg a => a' <- sshift a cutoff amount ;; Some (TNeg a')
  | TBin o a b => a' <- sshift a cutoff amount ;; b' <- sshift b cutoff amount ;; Some (TBin o a' b')
  | TIf c t e => c' <- sshift c cutoff amount ;; t' <- sshift t cutoff amount ;; e' <- sshift e cutoff amount ;; Some (TIf c' t' e')
  end.

Lemma shift_idx_0 i c : shift_idx i c 0 = Some i.
Proof. unfold shift_idx. destruct (Nat.leb c i) eqn:E; auto. rewrite Z.add_0_r.
  apply Nat.leb_le in E. destruct (Z.leb_spec (Z.of_nat c) (Z.of_nat i)); [|lia]. now rewrite Nat2Z.id. Qed.

Lemma omap_id {A} (f : A -> option A) l : Forall (fun a => f a = Some a) l -> omap f l = Some l.
Proof. induction 1; simpl; auto. rewrite H. simpl. rewrite IHForall. reflexivity. Qed.

Theorem sshift_zero : forall t c, sshift t c 0 = Some t.
Proof.
  induction t using term_ind'; intros c; cbn [sshift obind];
    rewrite ?shift_idx_0; cbn [obind]; try reflexivity;
    repeat match goal with IH : forall c, sshift ?t c 0 = Some ?t |- _ => rewrite IH; clear IH; cbn [obind] end; try reflexivity.
  rewrite omap_id. 2:{ eapply Forall_impl; [|exact H]. intros [a d] [Ha Hd]; simpl in *. now rewrite Ha, Hd. }
  reflexivity.
Qed.
Print Assumptions sshift_zero.
Require Extraction. Require Import ExtrOcamlBasic.
Extraction "t.ml" sshift.
