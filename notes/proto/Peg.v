(* Feasibility sketch: generic interpreter of the extracted parser skeleton, soundness w.r.t. the
   extracted grammar under a computable compatibility check. *)
From Coq Require Import List Arith Lia Bool.
Import ListNotations.

Section PEG.
Variables tok nt : Type.
Variable tok_eqb : tok -> tok -> bool.
Hypothesis tok_eqb_eq : forall a b, tok_eqb a b = true -> a = b.

Inductive sym := T (k : tok) | N (n : nt).
Inductive step := Consume (k : tok) | Try (n : nt) | Commit (n : nt).
Inductive fdesc := Choice (alts : list nt) | Seq (steps : list step).
Definition erase (s : step) : sym := match s with Consume k => T k | Try n | Commit n => N n end.

Variable skel : nt -> fdesc.
Variable grammar : nt -> list sym -> Prop.          (* production membership *)
Hypothesis compat_seq : forall n steps, skel n = Seq steps -> grammar n (map erase steps).
Hypothesis compat_choice : forall n alts a, skel n = Choice alts -> In a alts -> grammar n [N a].

Variable toks : list tok.

Inductive tree := Leaf (k : tok) | Node (n : nt) (cs : list tree) | Err.
Inductive res := Fail | Fuel | Succ (t : tree) (next : nat).

Definition choose (rec : nt -> nat -> res) (n : nt) (pos : nat) : list nt -> res :=
  fix go alts := match alts with
  | [] => Fail
  | a :: r => match rec a pos with Succ t nx => Succ (Node n [t]) nx | Fail => go r | Fuel => Fuel end
  end.

Fixpoint run (rec : nt -> nat -> res) (n : nt) (steps : list step) (pos : nat) (acc : list tree) : res :=
  match steps with
  | [] => Succ (Node n (rev acc)) pos
  | Consume k :: r =>
      match nth_error toks pos with
      | Some k' => if tok_eqb k k' then run rec n r (S pos) (Leaf k :: acc) else Fail
      | None => Fail end
  | Try m :: r => match rec m pos with Succ t nx => run rec n r nx (t :: acc) | Fail => Fail | Fuel => Fuel end
  | Commit m :: r => match rec m pos with
                     | Succ t nx => run rec n r nx (t :: acc)
                     | Fail => run rec n r pos (Err :: acc)
                     | Fuel => Fuel end
  end.

Fixpoint parse (fuel : nat) (n : nt) (pos : nat) : res :=
  match fuel with O => Fuel | S f =>
  match skel n with
  | Choice alts => choose (parse f) n pos alts
  | Seq steps => run (parse f) n steps pos []
  end end.

(* error-freeness *)
Fixpoint err_free (t : tree) : bool :=
  match t with Leaf _ => true | Err => false | Node _ cs => forallb err_free cs end.

Definition slice (a b : nat) := firstn (b - a) (skipn a toks).

Inductive wf_tree : tree -> sym -> nat -> nat -> Prop :=
| wf_leaf k p : nth_error toks p = Some k -> wf_tree (Leaf k) (T k) p (S p)
| wf_node n cs syms p q : grammar n syms -> wf_forest cs syms p q -> wf_tree (Node n cs) (N n) p q
with wf_forest : list tree -> list sym -> nat -> nat -> Prop :=
| wf_nil p : wf_forest [] [] p p
| wf_cons t ts s ss p q r : wf_tree t s p q -> wf_forest ts ss q r -> wf_forest (t :: ts) (s :: ss) p r.

Definition sound_rec (rec : nt -> nat -> res) :=
  forall n p t q, rec n p = Succ t q -> err_free t = true -> wf_tree t (N n) p q.

Lemma run_sound rec n : sound_rec rec ->
  forall steps pos acc t q,
    run rec n steps pos acc = Succ t q ->
    exists cs, t = Node n (rev acc ++ cs) /\
               (forallb err_free cs = true -> wf_forest cs (map erase steps) pos q).
Proof.
  intros Hrec. induction steps as [|s steps IH]; intros pos acc t q H; cbn [run] in H.
  - injection H as <- <-. exists []. split; [now rewrite app_nil_r | intros _; constructor].
  - destruct s as [k|m|m].
    + destruct (nth_error toks pos) as [k'|] eqn:E; [|discriminate].
      destruct (tok_eqb k k') eqn:Ek; [|discriminate]. apply tok_eqb_eq in Ek; subst k'.
      apply IH in H. destruct H as (cs & -> & H). exists (Leaf k :: cs). split.
      * cbn [rev]. now rewrite <- app_assoc.
      * cbn [forallb err_free map erase]. intros Hc. econstructor; [constructor; exact E | auto].
    + destruct (rec m pos) as [| |t' nx] eqn:E; try discriminate.
      apply IH in H. destruct H as (cs & -> & H). exists (t' :: cs). split.
      * cbn [rev]. now rewrite <- app_assoc.
      * cbn [forallb map erase]. intros Hc. apply andb_prop in Hc as [H1 H2].
        econstructor; [apply Hrec; eauto | auto].
    + destruct (rec m pos) as [| |t' nx] eqn:E; try discriminate.
      * apply IH in H. destruct H as (cs & -> & H). exists (Err :: cs). split.
        -- cbn [rev]. now rewrite <- app_assoc.
        -- cbn [forallb err_free]. discriminate.
      * apply IH in H. destruct H as (cs & -> & H). exists (t' :: cs). split.
        -- cbn [rev]. now rewrite <- app_assoc.
        -- cbn [forallb map erase]. intros Hc. apply andb_prop in Hc as [H1 H2].
           econstructor; [apply Hrec; eauto | auto].
Qed.

Lemma choose_sound rec n pos : sound_rec rec ->
  forall alts all, (forall a, In a alts -> In a all) -> skel n = Choice all ->
  forall t q, choose rec n pos alts = Succ t q -> err_free t = true -> wf_tree t (N n) pos q.
Proof.
  intros Hrec. induction alts as [|a r IH]; intros all Hin Hsk t q H Ht; cbn [choose] in H; [discriminate|].
  destruct (rec a pos) as [| |t' nx] eqn:E; try discriminate.
  - eapply (IH all); auto. intros; apply Hin; now right.
  - injection H as <- <-. cbn [err_free forallb] in Ht. rewrite andb_true_r in Ht.
    econstructor; [eapply compat_choice; eauto; apply Hin; now left|].
    econstructor; [apply Hrec; eauto | constructor].
Qed.

Theorem parse_sound : forall fuel, sound_rec (parse fuel).
Proof.
  induction fuel as [|f IH]; intros n p t q H Ht; cbn [parse] in H; [discriminate|].
  destruct (skel n) as [alts|steps] eqn:Sk.
  - eapply (choose_sound (parse f) n p IH alts alts); eauto.
  - apply run_sound in H; auto. destruct H as (cs & -> & H). cbn [rev app] in *.
    cbn [err_free] in Ht. econstructor; [eapply compat_seq; eauto | auto].
Qed.
End PEG.
Print Assumptions parse_sound.
