(* Memoised version of the parser model (the packrat table of parser.rs), state-passing. *)
From Coq Require Import List Arith Lia Bool PArith FMapPositive.
Import ListNotations.
Require Import GP.

Definition nt_index (n : nt) : nat :=
  match n with
  | Term => 0 | Type_ => 1 | Var_ => 2 | Lambda => 3 | LambdaImplicit => 4 | AnnotatedLambda => 5
  | AnnotatedLambdaImplicit => 6 | Pi => 7 | PiImplicit => 8 | NonDependentPi => 9 | Application => 10 | Let => 11
  | Integer => 12 | IntegerLiteral => 13 | Negation => 14 | Sum => 15 | Difference => 16 | Product => 17
  | Quotient => 18 | LessThan => 19 | LessThanOrEqualTo => 20 | EqualTo => 21 | GreaterThan => 22
  | GreaterThanOrEqualTo => 23 | Boolean => 24 | True_ => 25 | False_ => 26 | If => 27 | Group => 28 | Atom => 29
  | SmallTerm => 30 | MediumTerm => 31 | LargeTerm => 32 | HugeTerm => 33 | GiantTerm => 34 | JumboTerm => 35
  end.
Definition key (n : nt) (pos : nat) : positive := Pos.of_succ_nat (nt_index n + 36 * pos).

Record mstate := { tbl : PositiveMap.t res; misses : nat }.
Definition M (A : Type) := mstate -> A * mstate.

Section MParser.
Variable toks : list tok.
Variable fixed_group : bool.
Notation is := (GP.is toks).
Notation expect := (GP.expect toks).

Definition mrec := nt -> nat -> M res.

Fixpoint mchoose (rec : mrec) (n : nt) (pos : nat) (alts : list nt) : M res :=
  fun s => match alts with
  | [] => (Fail, s)
  | a :: r => match rec a pos s with
              | (Succ t nx c, s') => (Succ (Node n [t] 0) nx c, s')
              | (Fail, s') => mchoose rec n pos r s'
              | (Fuel, s') => (Fuel, s') end
  end.

Fixpoint mrun (rec : mrec) (n : nt) (steps : list step) (pos : nat) (acc : list tree) (conf : bool) : M res :=
  fun s => match steps with
  | [] => (Succ (Node n (rev acc) 0) pos conf, s)
  | Consume k :: r => if is pos k then mrun rec n r (S pos) (Leaf k :: acc) true s else (Fail, s)
  | Try m :: r => match rec m pos s with
                  | (Succ t nx c, s') => mrun rec n r nx (t :: acc) c s'
                  | (Fail, s') => (Fail, s') | (Fuel, s') => (Fuel, s') end
  | Commit m :: r => match rec m pos s with
                     | (Succ t nx c, s') => mrun rec n r nx (t :: acc) c s'
                     | (Fail, s') => mrun rec n r pos (ErrR :: acc) false s'
                     | (Fuel, s') => (Fuel, s') end
  end.

Definition mcommit (rec : mrec) (m : nt) (pos : nat) (k : tree -> nat -> bool -> M res) : M res :=
  fun s => match rec m pos s with
           | (Succ t nx c, s') => k t nx c s' | (Fail, s') => k ErrR pos false s' | (Fuel, s') => (Fuel, s') end.
Definition ret (r : res) : M res := fun s => (r, s).

Definition mparse_let (rec : mrec) (start : nat) : M res :=
  if negb (is start IDENTIFIER) then ret Fail else
  let p1 := S start in
  let after_annotation (ann : list tree) (p2 : nat) (has_ann ann_conf : bool) : M res :=
    let '(eq_found, p3, e1) := if has_ann then expect p2 EQUALS ann_conf else (is p2 EQUALS, S p2, 0) in
    if negb has_ann && negb eq_found then ret Fail else
    let with_def (d : tree) (p4 : nat) (dconf : bool) : M res :=
      let '(t_found, p5, e2) := expect p4 TERMINATOR dconf in
      let with_body (b : tree) (p6 : nat) (bconf : bool) : M res :=
        ret (Succ (Node Let ([Leaf IDENTIFIER] ++ ann ++ [d; b]) (e1 + e2)) p6 bconf) in
      if t_found then mcommit rec Term p5 with_body else with_body ErrS p5 false in
    if eq_found then mcommit rec Term p3 with_def else with_def ErrS p3 false in
  if is p1 COLON then
    fun s => match rec SmallTerm (S p1) s with
             | (Succ a p2 c, s') => after_annotation [a] p2 true c s'
             | (Fail, s') => (Fail, s') | (Fuel, s') => (Fuel, s') end
  else after_annotation [] p1 false true.

Definition mparse_if (rec : mrec) (start : nat) : M res :=
  if negb (is start IF) then ret Fail else
  mcommit rec Term (S start) (fun c p1 cconf =>
    let '(found_then, p2, e1) := expect p1 THEN cconf in
    let k_then (t : tree) (p3 : nat) (tconf : bool) : M res :=
      let '(found_else, p4, e2) := expect p3 ELSE tconf in
      let k_else (e : tree) (p5 : nat) (econf : bool) : M res := ret (Succ (Node If [c; t; e] (e1 + e2)) p5 econf) in
      if found_else then mcommit rec Term p4 k_else else k_else ErrS p4 false in
    if found_then then mcommit rec Term p2 k_then else k_then ErrS p2 false).

Definition mparse_group (rec : mrec) (start : nat) : M res :=
  if negb (is start LEFT_PAREN) then ret Fail else
  fun s => match rec Term (S start) s with
  | (Succ t p1 c, s') =>
      let '(found, p2, phony) := expect p1 RIGHT_PAREN c in
      let nerr := if found then (if fixed_group then phony else 0) else 1 in
      (Succ (Node Group [t] nerr) p2 found, s')
  | (Fail, s') => (Fail, s') | (Fuel, s') => (Fuel, s') end.

Fixpoint mparse (fuel : nat) (n : nt) (pos : nat) : M res :=
  fun s =>
  match fuel with O => (Fuel, s) | S f =>
  match PositiveMap.find (key n pos) (tbl s) with
  | Some r => (r, s)                                            (* cache_check! hit *)
  | None =>
      let '(r, s') :=
        match skel n with
        | Choice alts => mchoose (mparse f) n pos alts s
        | Seq steps => mrun (mparse f) n steps pos [] true s
        | SpecialLet => mparse_let (mparse f) pos s
        | SpecialIf => mparse_if (mparse f) pos s
        | SpecialGroup => mparse_group (mparse f) pos s
        end in
      (r, {| tbl := PositiveMap.add (key n pos) r (tbl s'); misses := S (misses s') |})   (* cache_return! *)
  end end.

Definition mparse_top : verdict * nat :=
  let '(r, s) := mparse (36 * (S (length toks)) + 36) Term 0 {| tbl := PositiveMap.empty res; misses := 0 |} in
  (match r with
   | Fuel => OutOfFuel | Fail => Reject
   | Succ t nx _ =>
       if negb (Nat.eqb (nerrs t) 0) then Reject
       else if negb (Nat.eqb nx (length toks)) then Reject
       else if has_err_node t then WouldPanic else Accept t
   end, misses s).
End MParser.

Definition maccepts (fixed : bool) (ts : list tok) : bool * nat :=
  let '(v, m) := mparse_top ts fixed in (match v with Accept _ => true | _ => false end, m).

Example m_d2 : fst (maccepts false [LEFT_PAREN; INTEGER_LITERAL; ELSE; INTEGER_LITERAL; RIGHT_PAREN]) = true
            /\ fst (maccepts true [LEFT_PAREN; INTEGER_LITERAL; ELSE; INTEGER_LITERAL; RIGHT_PAREN]) = false.
Proof. vm_compute. split; reflexivity. Qed.
(* nested parentheses are now cheap, and the number of executed bodies respects 36 * (n + 1) *)
Example m_nested :
  let ts := repeat LEFT_PAREN 12 ++ [INTEGER_LITERAL] ++ repeat RIGHT_PAREN 12 in
  fst (maccepts true ts) = true /\ snd (maccepts true ts) <= 36 * (length ts + 1).
Proof. vm_compute. split; [reflexivity | repeat constructor]. Qed.

Require Extraction. Require Import ExtrOcamlBasic.
Extraction "gpm.ml" maccepts.
