(* Design-time sketch for C02/C01: the call-by-value specification, step = cbv, stuck-term taxonomy. *)
From Coq Require Import List ZArith Lia Bool Arith.
Import ListNotations.
Require Import DB Ev.

Definition group_unfold (ann d : term) (rest : list (term * term)) (b : term) : term :=
  let index := length rest in
  let u := unfold_first ann d index in
  TLet (map (fun p => let '(a, x) := p in (open a index u 0, open x index u 0)) rest) (open b index u 0).

Inductive redex : term -> term -> Prop :=
| R_beta im d b a : is_value a = true -> redex (TApp (TLam im d b) a) (open b 0 a 0)
| R_let_nil b : redex (TLet [] b) b
| R_let_val ann d rest b : is_value d = true -> redex (TLet ((ann, d) :: rest) b) (group_unfold ann d rest b)
| R_neg z : redex (TNeg (TLit z)) (TLit (- z))
| R_bin o x y r : arith o x y = Some r -> redex (TBin o (TLit x) (TLit y)) r
| R_if_true t e : redex (TIf TTrue t e) t
| R_if_false t e : redex (TIf TFalse t e) e.

Inductive ectx :=
| EHole
| EAppL (E : ectx) (a : term)
| EAppR (f : term) (E : ectx)
| ELet (ann : term) (E : ectx) (rest : list (term * term)) (b : term)
| ENeg (E : ectx)
| EBinL (o : binop) (E : ectx) (b : term)
| EBinR (o : binop) (a : term) (E : ectx)
| EIf (E : ectx) (t e : term).

Fixpoint plug (E : ectx) (r : term) : term :=
  match E with
  | EHole => r
  | EAppL E a => TApp (plug E r) a
  | EAppR f E => TApp f (plug E r)
  | ELet ann E rest b => TLet ((ann, plug E r) :: rest) b
  | ENeg E => TNeg (plug E r)
  | EBinL o E b => TBin o (plug E r) b
  | EBinR o a E => TBin o a (plug E r)
  | EIf E t e => TIf (plug E r) t e
  end.

Fixpoint ectx_ok (E : ectx) : bool :=
  match E with
  | EHole => true
  | EAppL E _ | ELet _ E _ _ | ENeg E | EBinL _ E _ | EIf E _ _ => ectx_ok E
  | EAppR f E => is_value f && ectx_ok E
  | EBinR _ a E => is_value a && ectx_ok E
  end.

Definition cbv (t t' : term) : Prop :=
  exists E r r', ectx_ok E = true /\ t = plug E r /\ redex r r' /\ t' = plug E r'.

Lemma value_no_step v : is_value v = true -> step v = None.
Proof. destruct v; cbn; try discriminate; reflexivity. Qed.

Lemma redex_step r r' : redex r r' -> step r = Some r'.
Proof.
  destruct 1; cbn [step is_value negb]; try reflexivity.
  - rewrite (value_no_step a H), H. reflexivity.
  - rewrite (value_no_step d H), H. reflexivity.
  - exact H.
Qed.

Lemma redex_not_value r r' : redex r r' -> is_value r = false.
Proof. destruct 1; reflexivity. Qed.

Lemma plug_not_value E r : is_value r = false -> is_value (plug E r) = false.
Proof. destruct E; cbn; auto. Qed.

Lemma plug_step : forall E r r', ectx_ok E = true -> step r = Some r' -> step (plug E r) = Some (plug E r').
Proof.
  induction E; intros r r' Hok Hs; cbn [plug ectx_ok] in *; auto.
  - cbn [step]. now rewrite (IHE _ _ Hok Hs).
  - apply andb_prop in Hok as [Hv Hok]. cbn [step]. rewrite (value_no_step f Hv), Hv. cbn [negb].
    now rewrite (IHE _ _ Hok Hs).
  - cbn [step]. now rewrite (IHE _ _ Hok Hs).
  - cbn [step]. now rewrite (IHE _ _ Hok Hs).
  - cbn [step]. now rewrite (IHE _ _ Hok Hs).
  - apply andb_prop in Hok as [Hv Hok]. cbn [step]. rewrite (value_no_step a Hv), Hv. cbn [negb].
    now rewrite (IHE _ _ Hok Hs).
  - cbn [step]. now rewrite (IHE _ _ Hok Hs).
Qed.

Theorem cbv_step t t' : cbv t t' -> step t = Some t'.
Proof. intros (E & r & r' & Hok & -> & Hr & ->). apply plug_step; auto. now apply redex_step. Qed.

Ltac wrap C :=
  match goal with
  | IH : forall t', step ?x = Some t' -> cbv ?x t', HH : step ?x = Some ?y |- _ =>
      destruct (IH _ HH) as (E & r & r' & Hok & Hp & Hr & Hq);
      exists (C E), r, r'; cbn [plug ectx_ok]; rewrite ?Hok, <- ?Hp, <- ?Hq; repeat split; auto
  end.

Theorem step_cbv : forall t t', step t = Some t' -> cbv t t'.
Proof.
  induction t using term_ind'; intros t' Hs; cbn [step] in Hs; try discriminate.
  - (* app *)
    destruct (step t1) as [f'|] eqn:S1.
    + injection Hs as <-. destruct (IHt1 _ eq_refl) as (E & r & r' & Hok & Hp & Hr & Hq).
      exists (EAppL E t2), r, r'. cbn [plug ectx_ok]. rewrite Hok, <- Hp, <- Hq. repeat split; auto.
    + destruct (is_value t1) eqn:V1; cbn [negb] in Hs; [|discriminate].
      destruct (step t2) as [a'|] eqn:S2.
      * injection Hs as <-.
        destruct (IHt2 _ eq_refl) as (E & r & r' & Hok & Hp & Hr & Hq).
        exists (EAppR t1 E), r, r'. cbn [plug ectx_ok]. rewrite V1, Hok, <- Hp, <- Hq. repeat split; auto.
      * destruct (is_value t2) eqn:V2; cbn [negb] in Hs; [|discriminate].
        destruct t1; try discriminate. injection Hs as <-.
        exists EHole, (TApp (TLam impl t1_1 t1_2) t2), (open t1_2 0 t2 0). repeat split; auto. now constructor.
  - (* let *)
    destruct ds as [|[ann d] rest].
    + injection Hs as <-. exists EHole, (TLet [] t), t. repeat split; auto. constructor.
    + inversion H as [|? ? [_ IHd] _]; subst. cbn [snd] in IHd.
      destruct (step d) as [d'|] eqn:Sd.
      * injection Hs as <-.
        destruct (IHd _ eq_refl) as (E & r & r' & Hok & Hp & Hr & Hq).
        exists (ELet ann E rest t), r, r'. cbn [plug ectx_ok]. rewrite Hok, <- Hp, <- Hq. repeat split; auto.
      * destruct (is_value d) eqn:Vd; cbn [negb] in Hs; [|discriminate]. injection Hs as <-.
        exists EHole, (TLet ((ann, d) :: rest) t), (group_unfold ann d rest t). repeat split; auto. now constructor.
  - (* neg *)
    destruct (step t) as [a'|] eqn:S1.
    + injection Hs as <-. destruct (IHt _ eq_refl) as (E & r & r' & Hok & Hp & Hr & Hq).
      exists (ENeg E), r, r'. cbn [plug ectx_ok]. rewrite Hok, <- Hp, <- Hq. repeat split; auto.
    + destruct t; try discriminate. injection Hs as <-.
      exists EHole, (TNeg (TLit z)), (TLit (- z)). repeat split; auto. constructor.
  - (* bin *)
    destruct (step t1) as [a'|] eqn:S1.
    + injection Hs as <-. destruct (IHt1 _ eq_refl) as (E & r & r' & Hok & Hp & Hr & Hq).
      exists (EBinL o E t2), r, r'. cbn [plug ectx_ok]. rewrite Hok, <- Hp, <- Hq. repeat split; auto.
    + destruct (is_value t1) eqn:V1; cbn [negb] in Hs; [|discriminate].
      destruct (step t2) as [b'|] eqn:S2.
      * injection Hs as <-.
        destruct (IHt2 _ eq_refl) as (E & r & r' & Hok & Hp & Hr & Hq).
        exists (EBinR o t1 E), r, r'. cbn [plug ectx_ok]. rewrite V1, Hok, <- Hp, <- Hq. repeat split; auto.
      * destruct t1; try discriminate. destruct t2; try discriminate.
        exists EHole, (TBin o (TLit z) (TLit z0)), t'. repeat split; auto. now constructor.
  - (* if *)
    destruct (step t1) as [c'|] eqn:S1.
    + injection Hs as <-. destruct (IHt1 _ eq_refl) as (E & r & r' & Hok & Hp & Hr & Hq).
      exists (EIf E t2 t3), r, r'. cbn [plug ectx_ok]. rewrite Hok, <- Hp, <- Hq. repeat split; auto.
    + destruct t1; try discriminate; injection Hs as <-.
      * exists EHole, (TIf TTrue t2 t3), t2. repeat split; auto. constructor.
      * exists EHole, (TIf TFalse t2 t3), t3. repeat split; auto. constructor.
Qed.

Theorem step_iff_cbv t t' : step t = Some t' <-> cbv t t'.
Proof. split; [apply step_cbv | apply cbv_step]. Qed.

Corollary cbv_deterministic t a b : cbv t a -> cbv t b -> a = b.
Proof. intros Ha Hb. apply cbv_step in Ha, Hb. congruence. Qed.
Print Assumptions step_iff_cbv.

(* ------------------------------------------------------------------ why a term is stuck (C01) *)
Inductive reason := DivByZero | FreeVariable | UnfilledHole | NotAFunction | NotAnInteger | NotABoolean.

Definition is_lam (t : term) := match t with TLam _ _ _ => true | _ => false end.
Definition is_lit (t : term) := match t with TLit _ => true | _ => false end.
Definition is_boolc (t : term) := match t with TTrue | TFalse => true | _ => false end.

Inductive stuck_redex : term -> reason -> Prop :=
| S_var i : stuck_redex (TVar i) FreeVariable
| S_hole id s : stuck_redex (THole id s) UnfilledHole
| S_app f a : is_value f = true -> is_value a = true -> is_lam f = false -> stuck_redex (TApp f a) NotAFunction
| S_neg a : is_value a = true -> is_lit a = false -> stuck_redex (TNeg a) NotAnInteger
| S_bin o a b : is_value a = true -> is_value b = true -> is_lit a && is_lit b = false ->
                stuck_redex (TBin o a b) NotAnInteger
| S_div x : stuck_redex (TBin OQuot (TLit x) (TLit 0)) DivByZero
| S_if c t e : is_value c = true -> is_boolc c = false -> stuck_redex (TIf c t e) NotABoolean.

Fixpoint stuck_reason (t : term) : option reason :=
  match t with
  | TVar _ => Some FreeVariable
  | THole _ _ => Some UnfilledHole
  | TApp f a =>
      if negb (is_value f) then stuck_reason f
      else if negb (is_value a) then stuck_reason a
      else if is_lam f then None else Some NotAFunction
  | TLet ds _ => match ds with (_, d) :: _ => if is_value d then None else stuck_reason d | [] => None end
  | TNeg a => if negb (is_value a) then stuck_reason a else if is_lit a then None else Some NotAnInteger
  | TBin o a b =>
      if negb (is_value a) then stuck_reason a
      else if negb (is_value b) then stuck_reason b
      else match a, b with
           | TLit _, TLit y => match o with OQuot => if (y =? 0)%Z then Some DivByZero else None | _ => None end
           | _, _ => Some NotAnInteger end
  | TIf c _ _ => if negb (is_value c) then stuck_reason c else if is_boolc c then None else Some NotABoolean
  | _ => None
  end.

Ltac fin k := eexists EHole, _, k; split; [reflexivity | split; [reflexivity | split; [constructor; auto | reflexivity]]].

Theorem stuck_classified : forall t, step t = None -> is_value t = false ->
  exists E r k, ectx_ok E = true /\ t = plug E r /\ stuck_redex r k /\ stuck_reason t = Some k.
Proof.
  induction t using term_ind'; intros Hs Hv; cbn [is_value] in Hv; try discriminate.
  - exists EHole, (THole i s), UnfilledHole. repeat split; constructor.
  - exists EHole, (TVar i), FreeVariable. repeat split; constructor.
  - (* app *) cbn [step] in Hs. cbn [stuck_reason].
    destruct (step t1) eqn:S1; [discriminate|].
    destruct (is_value t1) eqn:V1; cbn [negb] in *.
    + destruct (step t2) eqn:S2; [discriminate|].
      destruct (is_value t2) eqn:V2; cbn [negb] in *.
      * destruct t1; try discriminate;
          fin NotAFunction.
      * destruct (IHt2 eq_refl eq_refl) as (E & r & k & Hok & Hp & Hr & Hq).
        exists (EAppR t1 E), r, k. cbn [plug ectx_ok]. rewrite V1, Hok, <- Hp. repeat split; auto.
    + destruct (IHt1 eq_refl eq_refl) as (E & r & k & Hok & Hp & Hr & Hq).
      exists (EAppL E t2), r, k. cbn [plug ectx_ok]. rewrite Hok, <- Hp. repeat split; auto.
  - (* let *) cbn [step] in Hs. cbn [stuck_reason].
    destruct ds as [|[ann d] rest]; [discriminate|].
    inversion H as [|? ? [_ IHd] _]; subst. cbn [snd] in IHd.
    destruct (step d) eqn:Sd; [discriminate|].
    destruct (is_value d) eqn:Vd; cbn [negb] in *; [discriminate|].
    destruct (IHd eq_refl eq_refl) as (E & r & k & Hok & Hp & Hr & Hq).
    exists (ELet ann E rest t), r, k. cbn [plug ectx_ok]. rewrite Hok, <- Hp. repeat split; auto.
  - (* neg *) cbn [step] in Hs. cbn [stuck_reason].
    destruct (step t) eqn:S1; [discriminate|].
    destruct (is_value t) eqn:V1; cbn [negb].
    + destruct t; try discriminate;
        fin NotAnInteger.
    + destruct (IHt eq_refl eq_refl) as (E & r & k & Hok & Hp & Hr & Hq).
      exists (ENeg E), r, k. cbn [plug ectx_ok]. rewrite Hok, <- Hp. repeat split; auto.
  - (* bin *) cbn [step] in Hs. cbn [stuck_reason].
    destruct (step t1) eqn:S1; [discriminate|].
    destruct (is_value t1) eqn:V1; cbn [negb] in *.
    + destruct (step t2) eqn:S2; [discriminate|].
      destruct (is_value t2) eqn:V2; cbn [negb] in *.
      * destruct t1; try discriminate; destruct t2; try discriminate;
          try (fin NotAnInteger).
        (* both literals: only division by zero is stuck *)
        destruct o; cbn [arith] in Hs; try discriminate.
        destruct (z0 =? 0)%Z eqn:Z0; [|discriminate]. apply Z.eqb_eq in Z0; subst.
        exists EHole, (TBin OQuot (TLit z) (TLit 0)), DivByZero. repeat split; constructor.
      * destruct (IHt2 eq_refl eq_refl) as (E & r & k & Hok & Hp & Hr & Hq).
        exists (EBinR o t1 E), r, k. cbn [plug ectx_ok]. rewrite V1, Hok, <- Hp. repeat split; auto.
    + destruct (IHt1 eq_refl eq_refl) as (E & r & k & Hok & Hp & Hr & Hq).
      exists (EBinL o E t2), r, k. cbn [plug ectx_ok]. rewrite Hok, <- Hp. repeat split; auto.
  - (* if *) cbn [step] in Hs. cbn [stuck_reason].
    destruct (step t1) eqn:S1; [discriminate|].
    destruct (is_value t1) eqn:V1; cbn [negb].
    + destruct t1; try discriminate;
        fin NotABoolean.
    + destruct (IHt1 eq_refl eq_refl) as (E & r & k & Hok & Hp & Hr & Hq).
      exists (EIf E t2 t3), r, k. cbn [plug ectx_ok]. rewrite Hok, <- Hp. repeat split; auto.
Qed.
Print Assumptions stuck_classified.

(* the recorded finding D7 in the model: x = y + 1; y = 2; x   is stuck on a free (group) variable *)
Example d7_witness :
  let p := TLet [(TInt, TBin OSum (TVar 0) (TLit 1)); (TInt, TLit 2)] (TVar 1) in
  step p = None /\ is_value p = false /\ stuck_reason p = Some FreeVariable.
Proof. vm_compute. repeat split; reflexivity. Qed.
