(* Design-time sketch for C03/C04/C05: declarative typing for the whole term language, an
   independent executable checker, and its soundness. *)
From Coq Require Import List ZArith Lia Bool Arith Relations.
Import ListNotations.
Require Import DB.

(* ---------- contexts: head = innermost; (type, offset, optional definition) ---------- *)
Definition entry := (term * nat * option term)%type.
Definition ctx := list entry.
Definition lookup_ty (G : ctx) (i : nat) : option term :=
  match nth_error G i with Some (T, k, _) => Some (ushift T 0 (i + 1 - k)) | None => None end.
Definition lookup_def (G : ctx) (i : nat) : option term :=
  match nth_error G i with Some (_, k, Some d) => Some (ushift d 0 (i + 1 - k)) | _ => None end.
Definition bind (G : ctx) (A : term) : ctx := (A, 0, None) :: G.
(* entering a group of n definitions: definition j gets offset n - j *)
Fixpoint push_group (n : nat) (ds : list (term * term)) (j : nat) (G : ctx) : ctx :=
  match ds with [] => G | (a, d) :: r => push_group n r (S j) ((a, n - j, Some d) :: G) end.
Definition enter (ds : list (term * term)) (G : ctx) : ctx := push_group (length ds) ds 0 G.

(* ---------- the group operations of normalizer.rs / type_checker.rs, hole-free (Model A) ---------- *)
Definition unfold_def (ann d : term) (idx : nat) : term :=
  open d idx (TLet [(open (ushift ann 0 1) (S idx) (TVar 0) 0, open (ushift d 0 1) (S idx) (TVar 0) 0)] (TVar 0)) 0.
Fixpoint open_from (j i idx : nat) (u : term) (ds : list (term * term)) : list (term * term) :=
  match ds with
  | [] => []
  | (a, d) :: r => (if Nat.ltb j i then (a, d) else (open a idx u 0, open d idx u 0)) :: open_from (S j) i idx u r
  end.
Fixpoint let_subst (k n i : nat) (ds : list (term * term)) (body : term) : term :=   (* k = remaining iterations *)
  match k with
  | O => body
  | S k' => match nth_error ds i with
            | None => body
            | Some (ann, def) =>
                let idx := n - 1 - i in
                let u := unfold_def ann def idx in
                let_subst k' n (S i) (open_from 0 i idx u ds) (open body idx u 0)
            end
  end.
Definition let_whnf_body (ds : list (term * term)) (b : term) : term := let_subst (length ds) (length ds) 0 ds b.

(* type of a group (with the repaired cutoff, D4) *)
Fixpoint group_type (n : nat) (ds : list (term * term)) (i k : nat) (acc : term) : term :=
  match k with
  | O => acc
  | S k' =>
      let m := n - 1 - i in
      let sh := map (fun p => (ushift (fst p) n m, ushift (snd p) n m)) ds in
      group_type n ds (S i) k' (open acc 0 (TLet sh (TVar i)) 0)
  end.

Definition arith (o : binop) (x y : Z) : option term :=
  match o with
  | OSum => Some (TLit (x + y)) | ODiff => Some (TLit (x - y)) | OProd => Some (TLit (x * y))
  | OQuot => if (y =? 0)%Z then None else Some (TLit (Z.quot x y))
  | OLt => Some (if (x <? y)%Z then TTrue else TFalse) | OLe => Some (if (x <=? y)%Z then TTrue else TFalse)
  | OEq => Some (if (x =? y)%Z then TTrue else TFalse) | OGt => Some (if (x >? y)%Z then TTrue else TFalse)
  | OGe => Some (if (x >=? y)%Z then TTrue else TFalse)
  end.
Definition bin_ty (o : binop) : term := match o with OSum | ODiff | OProd | OQuot => TInt | _ => TBool end.

(* ---------- reduction and definitional equality ---------- *)
Inductive red (G : ctx) : term -> term -> Prop :=
| r_beta im d b a : red G (TApp (TLam im d b) a) (open b 0 a 0)
| r_delta i d : lookup_def G i = Some d -> red G (TVar i) d
| r_let ds b : red G (TLet ds b) (let_whnf_body ds b)
| r_neg z : red G (TNeg (TLit z)) (TLit (- z))
| r_bin o x y r : arith o x y = Some r -> red G (TBin o (TLit x) (TLit y)) r
| r_if_t a b : red G (TIf TTrue a b) a
| r_if_f a b : red G (TIf TFalse a b) b
| r_app1 f f' a : red G f f' -> red G (TApp f a) (TApp f' a)
| r_neg1 a a' : red G a a' -> red G (TNeg a) (TNeg a')
| r_bin1 o a a' b : red G a a' -> red G (TBin o a b) (TBin o a' b)
| r_bin2 o a b b' : red G b b' -> red G (TBin o a b) (TBin o a b')
| r_if1 c c' a b : red G c c' -> red G (TIf c a b) (TIf c' a b).
(* (the remaining congruences are provided by conv below) *)

Inductive conv (G : ctx) : term -> term -> Prop :=
| c_red a b : red G a b -> conv G a b
| c_refl a : conv G a a
| c_sym a b : conv G a b -> conv G b a
| c_trans a b c : conv G a b -> conv G b c -> conv G a c
| c_lam im d d' b b' : conv (bind G d) b b' -> conv G (TLam im d b) (TLam im d' b')      (* annotation irrelevant *)
| c_pi im d d' b b' : conv G d d' -> conv (bind G d) b b' -> conv G (TPi im d b) (TPi im d' b')
| c_app f f' a a' : conv G f f' -> conv G a a' -> conv G (TApp f a) (TApp f' a')
| c_neg a a' : conv G a a' -> conv G (TNeg a) (TNeg a')
| c_bin o a a' b b' : conv G a a' -> conv G b b' -> conv G (TBin o a b) (TBin o a' b')
| c_if c c' a a' b b' : conv G c c' -> conv G a a' -> conv G b b' -> conv G (TIf c a b) (TIf c' a' b').

(* ---------- typing ---------- *)
Inductive has_type (G : ctx) : term -> term -> Prop :=
| t_hole id s : has_type G (THole id s) TType            (* an unsolved cell is an opaque type constant *)
| t_type : has_type G TType TType
| t_int : has_type G TInt TType
| t_bool : has_type G TBool TType
| t_true : has_type G TTrue TBool
| t_false : has_type G TFalse TBool
| t_lit z : has_type G (TLit z) TInt
| t_var i T : lookup_ty G i = Some T -> has_type G (TVar i) T
| t_lam im d b B : has_type G d TType -> has_type (bind G d) b B -> has_type G (TLam im d b) (TPi im d B)
| t_pi im d b : has_type G d TType -> has_type (bind G d) b TType -> has_type G (TPi im d b) TType
| t_app f a A B : has_type G f (TPi false A B) -> has_type G a A -> has_type G (TApp f a) (open B 0 a 0)
| t_let ds b B :
    Forall (fun p => has_type (enter ds G) (fst p) TType /\ has_type (enter ds G) (snd p) (fst p)) ds ->
    has_type (enter ds G) b B ->
    has_type G (TLet ds b) (group_type (length ds) ds 0 (length ds) B)
| t_neg a : has_type G a TInt -> has_type G (TNeg a) TInt
| t_bin o a b : has_type G a TInt -> has_type G b TInt -> has_type G (TBin o a b) (bin_ty o)
| t_if c a b A : has_type G c TBool -> has_type G a A -> has_type G b A -> has_type G (TIf c a b) A
| t_conv t A B : has_type G t A -> conv G A B -> has_type G t B.

(* ---------- the executable checker ---------- *)
Fixpoint whnf (fuel : nat) (G : ctx) (t : term) : option term :=
  match fuel with O => None | S f =>
  match t with
  | TVar i => match lookup_def G i with Some d => whnf f G d | None => Some t end
  | TApp a b =>
      match whnf f G a with
      | Some (TLam _ _ body) => whnf f G (open body 0 b 0)
      | Some a' => Some (TApp a' b)
      | None => None end
  | TLet ds b => whnf f G (let_whnf_body ds b)
  | TNeg a => match whnf f G a with Some (TLit z) => Some (TLit (- z)) | Some a' => Some (TNeg a') | None => None end
  | TBin o a b =>
      match whnf f G a, whnf f G b with
      | Some (TLit x), Some (TLit y) => Some (match arith o x y with Some r => r | None => TBin o (TLit x) (TLit y) end)
      | Some a', Some b' => Some (TBin o a' b')
      | _, _ => None end
  | TIf c a b =>
      match whnf f G c with
      | Some TTrue => whnf f G a | Some TFalse => whnf f G b | Some c' => Some (TIf c' a b) | None => None end
  | _ => Some t
  end end.

Definition binop_eqb (a b : binop) : bool :=
  match a, b with OSum, OSum | ODiff, ODiff | OProd, OProd | OQuot, OQuot | OLt, OLt | OLe, OLe | OEq, OEq | OGt, OGt | OGe, OGe => true | _, _ => false end.
Lemma binop_eqb_eq a b : binop_eqb a b = true -> a = b.
Proof. destruct a, b; cbn; congruence. Qed.

Definition and3 (x : option bool) (y : unit -> option bool) : option bool :=
  match x with Some true => y tt | r => r end.

Fixpoint convb (fuel : nat) (G : ctx) (a b : term) : option bool :=
  match fuel with O => None | S f =>
  match whnf f G a, whnf f G b with
  | Some a', Some b' =>
    match a', b' with
    | THole i1 s1, THole i2 s2 => Some (Nat.eqb i1 i2 && Nat.eqb s1 s2)
    | TType, TType | TInt, TInt | TBool, TBool | TTrue, TTrue | TFalse, TFalse => Some true
    | TLit x, TLit y => Some (Z.eqb x y)
    | TVar i, TVar j => Some (Nat.eqb i j)
    | TLam i1 d1 b1, TLam i2 d2 b2 => if Bool.eqb i1 i2 then convb f (bind G d1) b1 b2 else Some false
    | TPi i1 d1 b1, TPi i2 d2 b2 =>
        if Bool.eqb i1 i2 then and3 (convb f G d1 d2) (fun _ => convb f (bind G d1) b1 b2) else Some false
    | TApp f1 a1, TApp f2 a2 => and3 (convb f G f1 f2) (fun _ => convb f G a1 a2)
    | TNeg x, TNeg y => convb f G x y
    | TBin o1 x1 y1, TBin o2 x2 y2 =>
        if binop_eqb o1 o2 then and3 (convb f G x1 x2) (fun _ => convb f G y1 y2) else Some false
    | TIf c1 x1 y1, TIf c2 x2 y2 =>
        and3 (convb f G c1 c2) (fun _ => and3 (convb f G x1 x2) (fun _ => convb f G y1 y2))
    | _, _ => Some false
    end
  | _, _ => None end end.

Definition is_true (o : option bool) : bool := match o with Some true => true | _ => false end.

(* all definitions of a group: annotation is a type, definition has the annotation *)
Fixpoint infer_defs (infer : term -> option term) (cv : term -> term -> option bool) (l : list (term * term)) : bool :=
  match l with
  | [] => true
  | (a, d) :: r =>
      match infer a, infer d with
      | Some Ta, Some Td => is_true (cv Ta TType) && is_true (cv Td a) && infer_defs infer cv r
      | _, _ => false end
  end.

Fixpoint infer (fuel : nat) (G : ctx) (t : term) : option term :=
  match fuel with O => None | S f =>
  match t with
  | THole _ _ | TType | TInt | TBool => Some TType
  | TTrue | TFalse => Some TBool
  | TLit _ => Some TInt
  | TVar i => lookup_ty G i
  | TLam im d b =>
      match infer f G d with
      | Some Td => if is_true (convb f G Td TType)
                   then match infer f (bind G d) b with Some B => Some (TPi im d B) | None => None end else None
      | None => None end
  | TPi im d b =>
      match infer f G d with
      | Some Td => if is_true (convb f G Td TType) then
          match infer f (bind G d) b with
          | Some Tb => if is_true (convb f (bind G d) Tb TType) then Some TType else None
          | None => None end else None
      | None => None end
  | TApp a b =>
      match infer f G a with
      | Some F => match whnf f G F with
        | Some (TPi false A B) => match infer f G b with
            | Some A' => if is_true (convb f G A' A) then Some (open B 0 b 0) else None
            | None => None end
        | _ => None end
      | None => None end
  | TLet ds b =>
      let G' := enter ds G in
      if infer_defs (infer f G') (convb f G') ds then
        match infer f G' b with Some B => Some (group_type (length ds) ds 0 (length ds) B) | None => None end
      else None
  | TNeg a => match infer f G a with Some Ta => if is_true (convb f G Ta TInt) then Some TInt else None | None => None end
  | TBin o a b =>
      match infer f G a, infer f G b with
      | Some Ta, Some Tb => if is_true (convb f G Ta TInt) && is_true (convb f G Tb TInt) then Some (bin_ty o) else None
      | _, _ => None end
  | TIf c a b =>
      match infer f G c, infer f G a, infer f G b with
      | Some Tc, Some Ta, Some Tb =>
          if is_true (convb f G Tc TBool) && is_true (convb f G Tb Ta) then Some Ta else None
      | _, _, _ => None end
  end end.
