(* Design-time sketch for C09/C10: tokenizer.rs as a one-character-at-a-time state machine. *)
From Coq Require Import List ZArith NArith Lia Bool Arith.
Import ListNotations.

Record ch := { cp : N; width : nat; alpha : bool; alnum : bool; ws : bool }.

Inductive kw := KBool | KElse | KFalse | KIf | KInt | KThen | KTrue | KType.
Inductive tokv :=
| Asterisk | Colon | DoubleEquals | Equals | GreaterThan | GreaterThanOrEqualTo
| Identifier (text : list N) | Keyword (k : kw) | IntegerLiteral (z : Z)
| LeftCurly | LeftParen | LessThan | LessThanOrEqualTo | Minus | Plus
| RightCurly | RightParen | Slash | TermLineBreak | TermSemicolon | ThickArrow | ThinArrow.
Record tok := { tstart : nat; tend : nat; tv : tokv }.

(* ASCII code points used by the dispatcher *)
Definition c_nl := 10%N. Definition c_hash := 35%N. Definition c_us := 95%N.
Definition is_digit (c : N) := (48 <=? c)%N && (c <=? 57)%N.

(* tables (in the framework: generated from tokenizer.rs / token.rs) *)
Definition symbol_table : list (N * tokv) :=
  [ (42, Asterisk); (58, Colon); (123, LeftCurly); (40, LeftParen); (43, Plus); (125, RightCurly);
    (41, RightParen); (47, Slash); (59, TermSemicolon) ]%N.
Definition assoc {B} (tbl : list (N * B)) (c : N) : option B :=
  match find (fun p => N.eqb (fst p) c) tbl with Some (_, v) => Some v | None => None end.
Definition single_symbol (c : N) : option tokv := assoc symbol_table c.
Inductive pend := PMinus | PLess | PEquals | PGreater.
Definition pend_of (c : N) : option pend :=
  match c with 45%N => Some PMinus | 60%N => Some PLess | 61%N => Some PEquals | 62%N => Some PGreater | _ => None end.
Definition pend_alone (p : pend) : tokv :=
  match p with PMinus => Minus | PLess => LessThan | PEquals => Equals | PGreater => GreaterThan end.
Definition pair_table : list (pend * list (N * tokv)) :=
  [ (PMinus, [(62, ThinArrow)]); (PLess, [(61, LessThanOrEqualTo)]);
    (PEquals, [(61, DoubleEquals); (62, ThickArrow)]); (PGreater, [(61, GreaterThanOrEqualTo)]) ]%N.
Definition pend_eqb (a b : pend) : bool :=
  match a, b with PMinus, PMinus | PLess, PLess | PEquals, PEquals | PGreater, PGreater => true | _, _ => false end.
Definition pend_pair (p : pend) (c : N) : option tokv :=
  match find (fun q => pend_eqb (fst q) p) pair_table with Some (_, tbl) => assoc tbl c | None => None end.
Definition keyword_table : list (list N * kw) :=
  [ ([98;111;111;108]%N, KBool); ([101;108;115;101]%N, KElse); ([102;97;108;115;101]%N, KFalse);
    ([105;102]%N, KIf); ([105;110;116]%N, KInt); ([116;104;101;110]%N, KThen);
    ([116;114;117;101]%N, KTrue); ([116;121;112;101]%N, KType) ].
Fixpoint list_N_eqb (a b : list N) : bool :=
  match a, b with [], [] => true | x :: a', y :: b' => N.eqb x y && list_N_eqb a' b' | _, _ => false end.
Definition classify_word (w : list N) : tokv :=
  match find (fun p => list_N_eqb (fst p) w) keyword_table with Some (_, k) => Keyword k | None => Identifier w end.

Definition ends_expr (v : tokv) : bool :=      (* first-pass table: a line break after this token is a terminator *)
  match v with
  | Keyword KBool | Keyword KFalse | Identifier _ | Keyword KInt | IntegerLiteral _
  | RightCurly | RightParen | TermSemicolon | Keyword KTrue | Keyword KType => true
  | _ => false end.
Definition starts_expr (v : tokv) : bool :=    (* second-pass table: a line break before this token is kept *)
  match v with
  | Keyword KBool | Keyword KFalse | Identifier _ | Keyword KIf | Keyword KInt | IntegerLiteral _
  | LeftCurly | LeftParen | TermSemicolon | Keyword KTrue | Keyword KType => true
  | _ => false end.

Inductive st :=
| Start
| InWord (start : nat) (rev_text : list N)
| InNum (start : nat) (acc : Z)
| InPend (start : nat) (p : pend)
| InComment.

Record out := { toks : list tok (* reversed *); errs : list (nat * nat) (* reversed *) }.
Definition emit (o : out) (s e : nat) (v : tokv) := {| toks := {| tstart := s; tend := e; tv := v |} :: toks o; errs := errs o |}.

Section Lex.
Variable gend : nat -> nat.     (* grapheme-cluster oracle (unicode-segmentation) *)

(* what the Rust loop does with character c at offset i when no token is in progress *)
Definition dispatch (o : out) (i : nat) (c : ch) : st * out :=
  match single_symbol (cp c) with
  | Some v => (Start, emit o i (i + 1) v)
  | None =>
    if N.eqb (cp c) c_nl then
      (Start, match toks o with
              | t :: _ => if ends_expr (tv t) then emit o i (i + 1) TermLineBreak else o
              | [] => o end)
    else match pend_of (cp c) with
    | Some p => (InPend i p, o)
    | None =>
      if alpha c || N.eqb (cp c) c_us then (InWord i [cp c], o)
      else if is_digit (cp c) then (InNum i (Z.of_N (cp c) - 48), o)
      else if ws c then (Start, o)
      else if N.eqb (cp c) c_hash then (InComment, o)
      else (Start, {| toks := toks o; errs := (i, gend i) :: errs o |})
    end
  end.

Definition flush (s : st) (o : out) (i : nat) : out :=
  match s with
  | Start | InComment => o
  | InWord st0 rt => emit o st0 i (classify_word (rev rt))
  | InNum st0 z => emit o st0 i (IntegerLiteral z)
  | InPend st0 p => emit o st0 (st0 + 1) (pend_alone p)
  end.

Fixpoint lex (cs : list ch) (i : nat) (s : st) (o : out) : out :=
  match cs with
  | [] => flush s o i
  | c :: cs' =>
    let i' := i + width c in
    match s with
    | Start => let '(s', o') := dispatch o i c in lex cs' i' s' o'
    | InWord st0 rt =>
        if alnum c || N.eqb (cp c) c_us then lex cs' i' (InWord st0 (cp c :: rt)) o
        else let '(s', o') := dispatch (flush s o i) i c in lex cs' i' s' o'
    | InNum st0 z =>
        if is_digit (cp c) then lex cs' i' (InNum st0 (z * 10 + (Z.of_N (cp c) - 48))) o
        else let '(s', o') := dispatch (flush s o i) i c in lex cs' i' s' o'
    | InPend st0 p =>
        match pend_pair p (cp c) with
        | Some v => lex cs' i' Start (emit o st0 (st0 + 2) v)
        | None => let '(s', o') := dispatch (flush s o i) i c in lex cs' i' s' o'
        end
    | InComment =>     (* repaired behaviour (D1): the line break is not part of the comment *)
        if N.eqb (cp c) c_nl then let '(s', o') := dispatch o i c in lex cs' i' s' o'
        else lex cs' i' InComment o
    end
  end.

Inductive res := Ok (ts : list tok) | Err (es : list (nat * nat)) | Panic.

(* second pass: drop line-break terminators at the end and before tokens that cannot start an expression *)
Fixpoint filter2 (ts : list tok) : option (list tok) :=
  match ts with
  | [] => Some []
  | t :: rest =>
    match tv t with
    | TermLineBreak =>
        match rest with
        | [] => Some []
        | n :: _ =>
            match tv n with
            | TermLineBreak => None     (* the panic! site *)
            | v => match filter2 rest with
                   | Some r => Some (if starts_expr v then t :: r else r) | None => None end
            end
        end
    | _ => match filter2 rest with Some r => Some (t :: r) | None => None end
    end
  end.

Definition tokenize (cs : list ch) : res :=
  let o := lex cs 0 Start {| toks := []; errs := [] |} in
  match errs o with
  | _ :: _ => Err (rev (errs o))
  | [] => match filter2 (rev (toks o)) with Some ts => Ok ts | None => Panic end
  end.
End Lex.

(* ---- the two consecutive line-break terminators panic is unreachable ---- *)
Definition no_double (rts : list tok) : Prop :=      (* on the reversed accumulator *)
  forall a b l, rts = a :: b :: l -> ~ (tv a = TermLineBreak /\ tv b = TermLineBreak).

(* ASCII helper for examples *)
Definition asc (n : N) : ch :=
  let is_al := ((65 <=? n) && (n <=? 90) || (97 <=? n) && (n <=? 122))%N in
  {| cp := n; width := 1; alpha := is_al; alnum := is_al || is_digit n;
     ws := ((9 <=? n) && (n <=? 13) || (n =? 32))%N |}.
Definition kinds (r : res) : list tokv := match r with Ok ts => map tv ts | _ => [] end.

(* "x = 1 #\nx + 5"  -> x = 1 \n x + 5   (after repair D1) *)
Example ex_comment :
  kinds (tokenize (fun i => i + 1) (map asc [120;32;61;32;49;32;35;10;120;32;43;32;53]%N))
  = [Identifier [120%N]; Equals; IntegerLiteral 1; TermLineBreak; Identifier [120%N]; Plus; IntegerLiteral 5].
Proof. vm_compute. reflexivity. Qed.
(* "a\n\n+b\n" : the break before + is dropped, the trailing one too *)
Example ex_layout :
  kinds (tokenize (fun i => i + 1) (map asc [97;10;10;43;98;10]%N)) = [Identifier [97%N]; Plus; Identifier [98%N]].
Proof. vm_compute. reflexivity. Qed.
(* "iff->=>" : keyword prefix is an identifier; -> and => are matched before - and = *)
Example ex_munch :
  kinds (tokenize (fun i => i + 1) (map asc [105;102;102;45;62;61;62]%N)) = [Identifier [105;102;102]%N; ThinArrow; ThickArrow].
Proof. vm_compute. reflexivity. Qed.

(* ---------------------------------------------------------------- panic-freedom of the filter *)
Definition is_lb (t : tok) : bool := match tv t with TermLineBreak => true | _ => false end.

Fixpoint nodbl (rts : list tok) : bool :=
  match rts with
  | a :: ((b :: _) as r) => negb (is_lb a && is_lb b) && nodbl r
  | _ => true
  end.

Lemma nodbl_emit o s e v : nodbl (toks o) = true ->
  (v = TermLineBreak -> match toks o with t :: _ => is_lb t = false | [] => True end) ->
  nodbl (toks (emit o s e v)) = true.
Proof.
  intros H Hv. unfold emit; cbn [toks]. destruct (toks o) as [|t r] eqn:E; [reflexivity|].
  change (negb (is_lb {| tstart := s; tend := e; tv := v |} && is_lb t) && nodbl (t :: r) = true).
  rewrite H, andb_true_r. unfold is_lb at 1; cbn [tv].
  destruct v; try reflexivity. cbn. rewrite (Hv eq_refl). reflexivity.
Qed.

Lemma ends_expr_not_lb t : ends_expr (tv t) = true -> is_lb t = false.
Proof. unfold is_lb. destruct (tv t); cbn; congruence. Qed.

Lemma assoc_in {B} (tbl : list (N * B)) c v : assoc tbl c = Some v -> In v (map snd tbl).
Proof.
  unfold assoc. destruct (find _ tbl) as [[k w]|] eqn:F; [|discriminate]. intros [= <-].
  apply find_some in F as [Hin _]. now apply (in_map snd) in Hin.
Qed.
Lemma single_symbol_not_lb c v : single_symbol c = Some v -> v <> TermLineBreak.
Proof.
  intros H. apply assoc_in in H. intros ->. cbn in H.
  repeat (destruct H as [H|H]; [discriminate|]). exact H.
Qed.
Lemma pend_pair_not_lb p c v : pend_pair p c = Some v -> v <> TermLineBreak.
Proof.
  unfold pend_pair. destruct p; cbn [find pair_table pend_eqb fst]; intros H; apply assoc_in in H; intros ->; cbn in H;
    repeat (destruct H as [H|H]; [discriminate|]); exact H.
Qed.

Section NoPanic.
Variable gend : nat -> nat.

Lemma dispatch_nodbl o i c s' o' : nodbl (toks o) = true -> dispatch gend o i c = (s', o') -> nodbl (toks o') = true.
Proof.
  intros H. unfold dispatch.
  destruct (single_symbol (cp c)) as [v|] eqn:Es.
  - intros [= <- <-]. apply nodbl_emit; auto. intros ->. now apply single_symbol_not_lb in Es.
  - destruct (N.eqb (cp c) c_nl).
    + intros [= <- <-]. destruct (toks o) as [|t r] eqn:E; [now rewrite E|].
      destruct (ends_expr (tv t)) eqn:Ee; [|now rewrite E].
      apply nodbl_emit; [now rewrite E|]. intros _. rewrite E. now apply ends_expr_not_lb.
    + destruct (pend_of (cp c)); [intros [= <- <-]; auto|].
      destruct (alpha c || N.eqb (cp c) c_us); [intros [= <- <-]; auto|].
      destruct (is_digit (cp c)); [intros [= <- <-]; auto|].
      destruct (ws c); [intros [= <- <-]; auto|].
      destruct (N.eqb (cp c) c_hash); intros [= <- <-]; auto.
Qed.

Lemma flush_nodbl s o i : nodbl (toks o) = true -> nodbl (toks (flush s o i)) = true.
Proof.
  intros H. destruct s; cbn [flush]; auto; apply nodbl_emit; auto; try discriminate.
  - unfold classify_word. destruct (find _ _) as [[? ?]|]; discriminate.
  - destruct p; discriminate.
Qed.

Lemma lex_nodbl : forall cs i s o, nodbl (toks o) = true -> nodbl (toks (lex gend cs i s o)) = true.
Proof.
  induction cs as [|c cs IH]; intros i s o H; cbn [lex].
  - now apply flush_nodbl.
  - destruct s.
    + destruct (dispatch gend o i c) as [s' o'] eqn:D. apply IH. eapply dispatch_nodbl; eauto.
    + destruct (alnum c || N.eqb (cp c) c_us); [now apply IH|].
      destruct (dispatch gend _ i c) as [s' o'] eqn:D. apply IH. eapply dispatch_nodbl; [|eauto]. now apply flush_nodbl.
    + destruct (is_digit (cp c)); [now apply IH|].
      destruct (dispatch gend _ i c) as [s' o'] eqn:D. apply IH. eapply dispatch_nodbl; [|eauto]. now apply flush_nodbl.
    + destruct (pend_pair p (cp c)) as [v|] eqn:Ep.
      * apply IH. apply nodbl_emit; auto. intros ->. now apply pend_pair_not_lb in Ep.
      * destruct (dispatch gend _ i c) as [s' o'] eqn:D. apply IH. eapply dispatch_nodbl; [|eauto]. now apply flush_nodbl.
    + destruct (N.eqb (cp c) c_nl); [|now apply IH].
      destruct (dispatch gend o i c) as [s' o'] eqn:D. apply IH. eapply dispatch_nodbl; eauto.
Qed.

(* the forward list has no two adjacent line breaks iff the reversed accumulator has none *)
Lemma filter2_total : forall ts, nodbl ts = true -> filter2 ts <> None.
Proof.
  induction ts as [|t rest IH]; cbn [filter2]; [discriminate|]. intros H.
  assert (Hr : nodbl rest = true).
  { destruct rest; auto. cbn [nodbl] in H. now apply andb_prop in H. }
  specialize (IH Hr).
  destruct (tv t) eqn:Et; try (destruct (filter2 rest); [discriminate|congruence]).
  destruct rest as [|n r]; [discriminate|].
  cbn [nodbl] in H. apply andb_prop in H as [H _]. unfold is_lb in H. rewrite Et in H. cbn in H.
  destruct (tv n) eqn:En; try (destruct (filter2 (n :: r)); [discriminate|congruence]).
Qed.

End NoPanic.
Print Assumptions lex_nodbl.
Print Assumptions filter2_total.
