(* Design-time sketch for C07/C14/C17: the packrat parser of parser.rs as an interpreter of its
   skeleton (hand-copied here; generated from parser.rs in the framework) plus the three irregular
   functions with their error recovery.  Accept/reject and tree shape; no ranges, no memo table. *)
From Coq Require Import List Arith Lia Bool.
Import ListNotations.

Inductive tok :=
| ASTERISK | BOOLEAN | COLON | DOUBLE_EQUALS | ELSE | EQUALS | FALSE_ | GREATER_THAN | GREATER_THAN_OR_EQUAL
| IDENTIFIER | IF | INTEGER | INTEGER_LITERAL | LEFT_CURLY | LEFT_PAREN | LESS_THAN | LESS_THAN_OR_EQUAL
| MINUS | PLUS | RIGHT_CURLY | RIGHT_PAREN | SLASH | TERMINATOR | THEN | THICK_ARROW | THIN_ARROW | TRUE_ | TYPE.
Scheme Equality for tok.

Inductive nt :=
| Term | Type_ | Var_ | Lambda | LambdaImplicit | AnnotatedLambda | AnnotatedLambdaImplicit | Pi | PiImplicit
| NonDependentPi | Application | Let | Integer | IntegerLiteral | Negation | Sum | Difference | Product | Quotient
| LessThan | LessThanOrEqualTo | EqualTo | GreaterThan | GreaterThanOrEqualTo | Boolean | True_ | False_ | If | Group
| Atom | SmallTerm | MediumTerm | LargeTerm | HugeTerm | GiantTerm | JumboTerm.

Inductive step := Consume (k : tok) | Try (n : nt) | Commit (n : nt).
Inductive fdesc := Choice (alts : list nt) | Seq (steps : list step) | SpecialLet | SpecialIf | SpecialGroup.

Definition binop (l : nt) (op : tok) (r : nt) := Seq [Try l; Consume op; Commit r].
Definition skel (n : nt) : fdesc :=
  match n with
  | Term => Choice [Let; JumboTerm]
  | Type_ => Seq [Consume TYPE] | Var_ => Seq [Consume IDENTIFIER]
  | Lambda => Seq [Consume IDENTIFIER; Consume THICK_ARROW; Commit Term]
  | LambdaImplicit => Seq [Consume LEFT_CURLY; Consume IDENTIFIER; Consume RIGHT_CURLY; Consume THICK_ARROW; Commit Term]
  | AnnotatedLambda => Seq [Consume LEFT_PAREN; Consume IDENTIFIER; Consume COLON; Try JumboTerm; Consume RIGHT_PAREN; Consume THICK_ARROW; Commit Term]
  | AnnotatedLambdaImplicit => Seq [Consume LEFT_CURLY; Consume IDENTIFIER; Consume COLON; Try JumboTerm; Consume RIGHT_CURLY; Consume THICK_ARROW; Commit Term]
  | Pi => Seq [Consume LEFT_PAREN; Consume IDENTIFIER; Consume COLON; Try JumboTerm; Consume RIGHT_PAREN; Consume THIN_ARROW; Commit Term]
  | PiImplicit => Seq [Consume LEFT_CURLY; Consume IDENTIFIER; Consume COLON; Try JumboTerm; Consume RIGHT_CURLY; Consume THIN_ARROW; Commit Term]
  | NonDependentPi => Seq [Try SmallTerm; Consume THIN_ARROW; Commit Term]
  | Application => Seq [Try Atom; Try SmallTerm]
  | Let => SpecialLet
  | Integer => Seq [Consume INTEGER] | IntegerLiteral => Seq [Consume INTEGER_LITERAL]
  | Negation => Seq [Consume MINUS; Commit LargeTerm]
  | Sum => binop LargeTerm PLUS HugeTerm | Difference => binop LargeTerm MINUS HugeTerm
  | Product => binop SmallTerm ASTERISK LargeTerm | Quotient => binop SmallTerm SLASH LargeTerm
  | LessThan => binop HugeTerm LESS_THAN HugeTerm | LessThanOrEqualTo => binop HugeTerm LESS_THAN_OR_EQUAL HugeTerm
  | EqualTo => binop HugeTerm DOUBLE_EQUALS HugeTerm | GreaterThan => binop HugeTerm GREATER_THAN HugeTerm
  | GreaterThanOrEqualTo => binop HugeTerm GREATER_THAN_OR_EQUAL HugeTerm
  | Boolean => Seq [Consume BOOLEAN] | True_ => Seq [Consume TRUE_] | False_ => Seq [Consume FALSE_]
  | If => SpecialIf | Group => SpecialGroup
  | Atom => Choice [Type_; Var_; Integer; IntegerLiteral; Boolean; True_; False_; Group]
  | SmallTerm => Choice [Application; Atom]
  | MediumTerm => Choice [Product; Quotient; SmallTerm]
  | LargeTerm => Choice [Negation; MediumTerm]
  | HugeTerm => Choice [Sum; Difference; LargeTerm]
  | GiantTerm => Choice [LessThan; LessThanOrEqualTo; EqualTo; GreaterThan; GreaterThanOrEqualTo; HugeTerm]
  | JumboTerm => Choice [Lambda; LambdaImplicit; AnnotatedLambda; AnnotatedLambdaImplicit; Pi; PiImplicit; NonDependentPi; If; GiantTerm]
  end.

(* trees: nerr = error factories attached to the node; ErrR = ParseError carrying an error, ErrS = silent one *)
Inductive tree := Leaf (k : tok) | Node (n : nt) (cs : list tree) (nerr : nat) | ErrR | ErrS.
Inductive res := Fail | Fuel | Succ (t : tree) (next : nat) (confident : bool).

Section Parser.
Variable toks : list tok.
Variable fixed_group : bool.     (* false = today's parse_group (finding D2), true = repaired *)

Definition at_ (p : nat) : option tok := nth_error toks p.
Definition is (p : nat) (k : tok) : bool := match at_ p with Some k' => tok_beq k k' | None => false end.

(* expect_token_*!: returns (found, next, errors reported) *)
Fixpoint scan (fuel : nat) (p depth : nat) (k : tok) : bool * nat :=
  match fuel with O => (false, p) | S f =>
  match at_ p with
  | None => (false, p)
  | Some t =>
      if tok_beq t k && Nat.eqb depth 0 then (true, S p)
      else match t with
           | LEFT_PAREN => scan f (S p) (S depth) k
           | RIGHT_PAREN => if Nat.eqb depth 0 then (false, p) else scan f (S p) (depth - 1) k
           | TERMINATOR => if Nat.eqb depth 0 then (false, p) else scan f (S p) depth k
           | _ => scan f (S p) depth k
           end
  end end.
Definition expect (p : nat) (k : tok) (report : bool) : bool * nat * nat :=
  let nerr := if report && negb (is p k) then 1 else 0 in
  let '(found, nx) := scan (S (length toks)) p 0 k in (found, nx, nerr).

Definition choose (rec : nt -> nat -> res) (n : nt) (pos : nat) : list nt -> res :=
  fix go alts := match alts with
  | [] => Fail
  | a :: r => match rec a pos with Succ t nx c => Succ (Node n [t] 0) nx c | Fail => go r | Fuel => Fuel end
  end.

Fixpoint run (rec : nt -> nat -> res) (n : nt) (steps : list step) (pos : nat) (acc : list tree) (conf : bool) : res :=
  match steps with
  | [] => Succ (Node n (rev acc) 0) pos conf
  | Consume k :: r => if is pos k then run rec n r (S pos) (Leaf k :: acc) true else Fail
  | Try m :: r => match rec m pos with Succ t nx c => run rec n r nx (t :: acc) c | Fail => Fail | Fuel => Fuel end
  | Commit m :: r => match rec m pos with
                     | Succ t nx c => run rec n r nx (t :: acc) c
                     | Fail => run rec n r pos (ErrR :: acc) false
                     | Fuel => Fuel end
  end.

(* a committed sub-parse: the result is embedded even when it is a ParseError *)
Definition commit (rec : nt -> nat -> res) (m : nt) (pos : nat) (k : tree -> nat -> bool -> res) : res :=
  match rec m pos with Succ t nx c => k t nx c | Fail => k ErrR pos false | Fuel => Fuel end.

Definition parse_let (rec : nt -> nat -> res) (start : nat) : res :=
  if negb (is start IDENTIFIER) then Fail else
  let p1 := S start in
  let after_annotation (ann : list tree) (p2 : nat) (has_ann ann_conf : bool) : res :=
    let '(eq_found, p3, e1) :=
        if has_ann then expect p2 EQUALS ann_conf
        else (is p2 EQUALS, S p2, 0) in
    if negb has_ann && negb eq_found then Fail else
    let with_def (d : tree) (p4 : nat) (dconf : bool) : res :=
      let '(t_found, p5, e2) := expect p4 TERMINATOR dconf in
      let with_body (b : tree) (p6 : nat) (bconf : bool) : res :=
        Succ (Node Let ([Leaf IDENTIFIER] ++ ann ++ [d; b]) (e1 + e2)) p6 bconf in
      if t_found then commit rec Term p5 with_body else with_body ErrS p5 false in
    if eq_found then commit rec Term p3 with_def else with_def ErrS p3 false in
  if is p1 COLON then
    match rec SmallTerm (S p1) with
    | Succ a p2 c => after_annotation [a] p2 true c
    | Fail => Fail | Fuel => Fuel end
  else after_annotation [] p1 false true.

Definition parse_if (rec : nt -> nat -> res) (start : nat) : res :=
  if negb (is start IF) then Fail else
  commit rec Term (S start) (fun c p1 cconf =>
    let '(found_then, p2, e1) := expect p1 THEN cconf in
    let k_then (t : tree) (p3 : nat) (tconf : bool) : res :=
      let '(found_else, p4, e2) := expect p3 ELSE tconf in
      let k_else (e : tree) (p5 : nat) (econf : bool) : res := Succ (Node If [c; t; e] (e1 + e2)) p5 econf in
      if found_else then commit rec Term p4 k_else else k_else ErrS p4 false in
    if found_then then commit rec Term p2 k_then else k_then ErrS p2 false).

Definition parse_group (rec : nt -> nat -> res) (start : nat) : res :=
  if negb (is start LEFT_PAREN) then Fail else
  match rec Term (S start) with
  | Succ t p1 c =>
      let '(found, p2, phony) := expect p1 RIGHT_PAREN c in
      let nerr := if found then (if fixed_group then phony else 0) else 1 in
      Succ (Node Group [t] nerr) p2 found
  | Fail => Fail | Fuel => Fuel end.

Fixpoint parse (fuel : nat) (n : nt) (pos : nat) : res :=
  match fuel with O => Fuel | S f =>
  match skel n with
  | Choice alts => choose (parse f) n pos alts
  | Seq steps => run (parse f) n steps pos [] true
  | SpecialLet => parse_let (parse f) pos
  | SpecialIf => parse_if (parse f) pos
  | SpecialGroup => parse_group (parse f) pos
  end end.

Fixpoint nerrs (t : tree) : nat :=
  match t with
  | Leaf _ | ErrS => 0 | ErrR => 1
  | Node _ cs e => e + fold_right (fun c a => nerrs c + a) 0 cs
  end.
Fixpoint has_err_node (t : tree) : bool :=
  match t with Leaf _ => false | ErrR | ErrS => true | Node _ cs _ => existsb has_err_node cs end.

Inductive verdict := Accept (t : tree) | Reject | OutOfFuel | WouldPanic.
Definition parse_top : verdict :=
  match parse (36 * (S (length toks)) + 36) Term 0 with
  | Fuel => OutOfFuel
  | Fail => Reject
  | Succ t nx _ =>
      if negb (Nat.eqb (nerrs t) 0) then Reject
      else if negb (Nat.eqb nx (length toks)) then Reject
      else if has_err_node t then WouldPanic      (* a ParseError would reach reassociate_* *)
      else Accept t
  end.
End Parser.

Definition accepts (fixed : bool) (ts : list tok) : bool :=
  match parse_top ts fixed with Accept _ => true | _ => false end.

(* x = 1 ; x   and   if true then 1 else 1   are accepted *)
Example ok_let : accepts false [IDENTIFIER; EQUALS; INTEGER_LITERAL; TERMINATOR; IDENTIFIER] = true.
Proof. vm_compute. reflexivity. Qed.
Example ok_if : accepts false [IF; TRUE_; THEN; INTEGER_LITERAL; ELSE; INTEGER_LITERAL] = true.
Proof. vm_compute. reflexivity. Qed.
(* finding D2: ( 5 else 7 ) is accepted by today's parse_group and rejected by the repaired one *)
Example d2_witness :
  accepts false [LEFT_PAREN; INTEGER_LITERAL; ELSE; INTEGER_LITERAL; RIGHT_PAREN] = true /\
  accepts true  [LEFT_PAREN; INTEGER_LITERAL; ELSE; INTEGER_LITERAL; RIGHT_PAREN] = false.
Proof. vm_compute. split; reflexivity. Qed.
(* some rejected inputs *)
Example rejects :
  map (accepts true) [ [INTEGER_LITERAL; PLUS]; [RIGHT_PAREN]; [LEFT_PAREN; INTEGER_LITERAL];
                       [IDENTIFIER; COLON; INTEGER; INTEGER_LITERAL]; [IF; TRUE_; INTEGER_LITERAL];
                       [IDENTIFIER; IDENTIFIER; THICK_ARROW; IDENTIFIER] ]
  = [false; false; false; false; false; false].
Proof. vm_compute. reflexivity. Qed.
