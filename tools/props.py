"""Per-property configuration of the check driver."""

TB_COMMON = [
    "Coq 8.16.1 kernel (coqc, full .vo build; no native_compute; vm_compute only for closed computations)",
    "axioms: none (Print Assumptions of every property theorem is recorded below and must be 'Closed under the global context')",
    "extraction: ExtrOcamlBasic only (bool/list/option/prod/unit/sumbool -> OCaml types; no Extract Constant; nat/positive/N/Z stay extracted datatypes); OCaml 4.13.1",
    "ocaml/driver: S-expression reader, decimal<->Z conversion, case generators, comparison",
    "harness (Rust): compiles /repo/src/*.rs by #[path], S-expression <-> Term conversion, hole numbering by pointer identity",
    "check (python): orchestration, shrinking, known-finding matching, evidence",
]

PROPS = {
    "C11": {
        "level": "proof",
        "streams": ["C11"],
        "exhaustive": False,
        "rule": "all hole-free terms with <= 3 nodes (quick; <= 4 thorough) over all 23 formers x cutoffs 0-2 x amounts -2..2 x "
                "indices 0-2 x 3 inserted terms; all terms of the next size and all two-definition groups over leaves with sampled "
                "parameters; random terms of 5-200 nodes. Each case runs one of signed_shift/unsigned_shift/open/free_variables on the "
                "implementation and on the extracted model (results compared structurally), or evaluates the eight laws of the property on "
                "the implementation's results alone. Non-trivial: the operation changed the term / the set is non-empty / a law's premise held; "
                "distinct by the case text.",
        "trusted_base": TB_COMMON + [
            "modelled, not verified: src/de_bruijn.rs and src/term.rs free_variables are mirrored by hand in coq/Model/DeBruijn.v and tied to the code by the correspondence stream only; usize/isize are unbounded nat/Z; source ranges and names are not compared",
        ],
        "assumptions": ["index arithmetic does not overflow usize/isize (needs terms with > 2^63 binders)",
                        "hole-free terms (the property's own restriction); holes are covered by the Model B streams of C12"],
    },
    "C02": {
        "level": "proof",
        "streams": ["C02"],
        "case_ms": 5000,
        "rule": "single steps: all terms with <= 4 nodes (thorough: + 1/6 of the 5-node terms) over all formers with 2 variables, all "
                "two-definition groups over leaves, random redex-rich terms - `step` of the implementation must equal the model `step`, which is "
                "proved equal to the call-by-value relation; whole programs from the type-directed generator (big integers, boundary-equal "
                "comparisons, nested conditionals, higher-order functions, recursive and mutually recursive groups): the implementation's value "
                "must equal the model evaluator's on the elaborated term and the independent environment/closure interpreter's on the parsed "
                "source term. Non-trivial: a step exists / the program takes at least one step; distinct by case text. Rejected programs and "
                "out-of-fuel programs are counted but inconclusive.",
        "trusted_base": TB_COMMON + [
            "modelled, not verified: src/evaluator.rs is mirrored by hand in coq/Model/Eval.v and tied to the code by the exhaustive single-step stream; num-bigint arithmetic is modelled by Z; Spec/EvalEnv.v (reference interpreter, written without substitution) is proved to agree with the evaluator model on every closed hole-free program (Proofs/EvalEnvGroups.v interpreters_agree_G3)",
        ],
        "assumptions": ["programs that exceed the step/recursion fuel or the per-case time limit are inconclusive",
                        "stack exhaustion of the real evaluator on deep recursion is outside the model"],
    },
    "C01": {
        "level": "proof",
        "streams": ["C01"],
        "case_ms": 5000,
        "rule": "programs from the type-directed generator (annotations omitted with probability 0.4-0.7, `_` in type positions, recursive and "
                "mutually recursive groups, nested groups, higher-order functions, type-level terms) plus the dedicated witnesses of the recorded "
                "findings; every program the implementation accepts is run by the implementation and a stuck result is classified by the "
                "extracted, proved stuck_reason; anything but division by zero is a failing input. Non-trivial: the program was accepted and "
                "evaluated; distinct by source text.",
        "trusted_base": TB_COMMON + [
            "modelled, not verified: stuck_reason is proved complete for the evaluator MODEL (Theorem stuck_classified); that the model is the implementation's evaluator is checked by the C02 correspondence",
            "hooks H1 / H3 (feature verif): counters of unresolved holes met by `open` / left below the cutoff by `signed_shift`, used only to attribute a failure to the recorded findings D9 / D19",
        ],
        "assumptions": ["progress as a universal theorem is not claimed (needs confluence with type:type and recursive groups); the property is decided per generated instance",
                        "programs that do not terminate within the per-case time limit are inconclusive"],
    },
    "C09": {
        "level": "proof",
        "streams": ["C09"],
        "generated_obligations": 1,
        "rule": "all strings of length <= 3 (quick; <= 4 thorough) over a 25-symbol alphabet covering every token-forming class (letters, digits, "
                "underscore, symbols, #, newline, space, tab, CR, 2-byte letter, 3-byte space, non-alphabetic numeric, illegal 3- and 4-byte "
                "symbols, combining mark), sampled strings of the next two lengths, all strings <= 4 (5) over the layout alphabet, keyword "
                "neighbourhoods / symbols / literals of 1-400 digits joined by whitespace-and-comment gaps, random Unicode text to 300 characters. "
                "Each case: the implementation's tokens must pass the Coq oracles partition_ok and layout_ok, and equal the extracted model "
                "tokenizer's tokens (kinds, payloads, byte ranges; for errors the unexpected symbols). Non-trivial: at least one token or "
                "error; distinct by text.",
        "trusted_base": TB_COMMON + [
            "translator tools/extract_tables.py: symbol, look-ahead, keyword and both line-break tables are regenerated from tokenizer.rs/token.rs on every run (fail-closed regular expressions)",
            "modelled, not verified: the control skeleton of tokenize() is mirrored by hand in coq/Model/Tokenizer.v; Unicode classes of non-ASCII code points and grapheme boundaries are taken from Rust per input (std / unicode-segmentation are trusted); BigInt parsing is the decimal fold",
        ],
        "assumptions": ["the partition theorem is about the tokenizer MODEL (all texts); that the model is the implementation is the correspondence stream; the theorem's hypothesis (positive widths, ASCII classes) is what the glue constructs and Rust's char API guarantees"],
    },
    "C10": {
        "level": "proof",
        "streams": ["C10", "C09"],
        "generated_obligations": 1,
        "rule": "re-layout: generated programs, each re-laid-out 12 (40) times: every gap between two tokens refilled with spaces, tabs, "
                "comments (empty, ending in a multi-byte character, at end of file), CR, and 1-3 line breaks wherever the rule allows; a "
                "separating line break replaced by `;` - token kinds (terminator type aside), payloads and the parser's output modulo ranges "
                "must not change (checked on the implementation alone). Plus the C09 string streams with the layout_ok oracle. Non-trivial: the "
                "program parses; distinct by the pair of texts.",
        "trusted_base": TB_COMMON + [
            "translator tools/extract_tables.py: both line-break tables regenerated from tokenizer.rs on every run; Theorem linebreak_tables_are_spec pins them to the sets the property describes",
            "modelled, not verified: as for C09",
        ],
        "assumptions": ["the theorem is about the tokenizer model; that the model is tokenizer.rs is the correspondence (C09/C10 streams compare token lists) plus the generated tables"],
    },
    "C07": {
        "level": "proof",
        "streams": ["C07"],
        "generated_obligations": 2,
        "rule": "all token sequences of length <= 3 (quick; <= 4 thorough) over the 28 token kinds (identifiers x, y, _; one literal; both "
                "terminator kinds), 150k (1.5M) sampled sequences of the next three lengths, 20k (100k) random derivations of grammar.y of "
                "3-300 tokens each with one single-token deletion/substitution/insertion, and 4k (40k) generated programs. Each case: parse() "
                "of the implementation vs the extracted parser model (verdict, tree incl. association and de Bruijn indices, names, error "
                "count, memo misses, scan steps), and syntactic acceptance vs an Earley recogniser of the grammar regenerated from grammar.y. "
                "Non-trivial: every case; distinct by token list.",
        "trusted_base": TB_COMMON + [
            "translator tools/extract_tables.py: skeleton of the 36 parse_* functions (alternatives, consumed tokens, try/commit sub-parses, memo flags, order of the re-association passes) regenerated from parser.rs; productions regenerated from grammar.y",
            "modelled, not verified: parse_let/parse_if/parse_group, the tree builders, the three re-association passes, resolve_variables and check_definitions are hand-written mirrors (coq/Model/Parser.v, ParserPost.v) tied to the code by the correspondence stream; ocaml/earley.ml is a plain OCaml recogniser used as completeness oracle only",
        ],
        "assumptions": ["soundness/completeness of the parser model w.r.t. a derivation relation is not yet a Coq theorem; it is decided on the explored inputs against the chart recogniser"],
    },
    "C08": {
        "level": "proof",
        "streams": ["C08"],
        "rule": "generated programs whose binders are renamed from a 12-name pool so that sibling scopes re-use names (names that are keyword "
                "prefixes or non-ASCII included), nested groups in definitions/annotations/bodies, plus one or two single-point perturbations "
                "per program that replace a variable or a binder by another name (unbinding or shadowing), plus 24 hand-written scope "
                "configurations. Each case: the implementation's parse() vs the stack-of-names specification scope_spec run on the model's "
                "syntax tree: same verdict (scoping error iff the specification fails) and same de Bruijn term. Non-trivial: syntactically "
                "accepted; distinct by source text.",
        "trusted_base": TB_COMMON + [
            "modelled, not verified: the syntax tree fed to the specification is produced by the parser model (tied to the code by C07's stream)",
        ],
        "assumptions": ["the theorems are about the mirror of resolve_variables; that the mirror is parser.rs is the correspondence of this stream (and of C07 for the syntax tree)"],
    },
    "C13": {
        "level": "proof",
        "streams": [],
        "py_streams": ["cli_determinism"],
        "rule": "files: rejected programs whose diagnostics come from several definitions at once (the former hash-ordered site), "
                "generated accepted programs, programs perturbed at three tokens (several diagnostics from one stage), token soup; each "
                "file is launched 12 (60) times as a fresh process, alternating `gram check` / `gram run`; stdout, stderr and exit status "
                "must be byte-identical per command. Non-trivial: the file produces at least two diagnostics; distinct by file content.",
        "trusted_base": TB_COMMON + [
            "static scan tools/streams.py hash_iteration_sites: every iteration over a HashSet/HashMap in /repo/src is re-extracted on every run and compared with the modelled list (one site, sorted)",
            "modelled, not verified: that the other stages are functions of their input is by construction of the models, which are tied to the code by the correspondence streams of C07/C09/C02; the per-process hash seed cannot be exhibited by a Coq model and is explored by repeated launches",
        ],
        "assumptions": ["launch-to-launch variation other than hash seeds (ASLR-dependent behaviour, time) is only covered by the launches explored"],
    },
    "C14": {
        "level": "proof",
        "streams": ["C14"],
        "py_streams": ["cli_contract"],
        "case_ms": 20000,
        "rule": "library level (panics caught, 1 GiB stack, 20 s per case): all token sequences of length <= 3 (4) over the 28 kinds and 100k "
                "(1M) longer random ones through parse(); grammar sentences with 0-3 token edits, strings over the tokenizer alphabet, raw "
                "bytes and perturbed generated programs through tokenize+parse+type_check. Process level: all byte strings of length <= 2 "
                "(3) over a 24-symbol alphabet with invalid UTF-8, random bytes, token soup, programs with single-token edits, nesting to "
                "2048 - exit status and stream contract of the release binary. Non-trivial: the stage returns errors / the process exits 1; "
                "distinct by input.",
        "trusted_base": TB_COMMON + [
            "modelled, not verified: no-panic is a theorem of the tokenizer MODEL and of the parser MODEL (mirror of parse()); termination is a theorem for the tokenizer model only; for the checker the absence of panics is explored (catch_unwind, process isolation)",
        ],
        "assumptions": ["stack exhaustion from syntactic depth beyond ~5000 nested parentheses / 10^4 chained operators (16 MiB stack, release build) is outside the explored sizes and outside the model (DESIGN D16)"],
    },
    "C17": {
        "level": "proof",
        "streams": [],
        "py_streams": ["parse_scaling"],
        "generated_obligations": 1,
        "rule": "21 input families (nested parentheses, operator / application / arrow chains, definition sequences with `;` and line "
                "breaks, nested conditionals, lambdas, and truncated or malformed variants of each) at n = 64 .. 1024 (2048): the "
                "implementation's own counters (hook H2) must satisfy misses <= 36*(tokens+1) and scan steps <= 2*(tokens+1)^2, and the best-"
                "of-3 time of tokenize+parse may grow at most 6x (+3 ms) per doubling. Non-trivial: every member; distinct by text.",
        "trusted_base": TB_COMMON + [
            "translator: memo flags of the 36 parse functions and the bodies of the four caching macros regenerated / compared from parser.rs (Theorems all_memoised, no_left_recursion)",
            "hook H2 (feature verif): counters of memo-table misses and recovery-scan steps in the real parser",
            "modelled, not verified: the packrat bound and termination are theorems of the parser MODEL (tied to parser.rs by the generated skeleton and the C07 correspondence incl. miss and scan counters); machine time per step cannot be modelled and is measured",
        ],
        "assumptions": ["timing is measured on this machine under load from the other 15 cores; the growth threshold is deliberately loose and a doubling that exceeds it is re-measured three times (minimum kept) before it counts"],
    },
    "C16": {
        "level": "proof",
        "streams": ["C16"],
        "generated_obligations": 1,
        "rule": "round trip on the implementation: 36 child shapes (every term former, binders implicit / unannotated / with unused variable, "
                "groups, applications as domains, negative operands) in each of 36 operand positions (every position of every former), "
                "exhaustively, and a quarter (all) of the two-level nestings; generated programs with re-used names. Each is parsed, printed, "
                "and the printed text tokenized and parsed again in the same scope; the two terms must be equal up to hole identity and shift. "
                "Printer model: printed token kinds of the implementation vs the extracted `print` on all terms <= 3 nodes and random terms. "
                "Non-trivial: the source parses; distinct by text.",
        "trusted_base": TB_COMMON + [
            "translator: the partition of the 23 formers by `group` (bare vs parenthesised) is regenerated from term.rs",
            "modelled, not verified: Display is mirrored by hand in coq/Model/Printer.v (token kinds only; names are not modelled)",
        ],
        "assumptions": ["terms containing negative literals are outside the property (the parser never produces them)"],
    },
    "C15": {
        "level": "proof",
        "streams": ["C15"],
        "rule": "(a) listing(): random multi-line texts (indentation, tabs, CR, trailing blanks, 2- and 3-byte characters, empty lines) with "
                "ranges as diagnostics produce them (from a non-blank character to the end of a non-blank character, and the empty range at "
                "the end), rendered output compared bytewise with the rendering of the Coq model; (b) generated programs re-laid-out over "
                "several lines after 0-3 comment/blank lines: every node range of the parser's output must run over whole tokens and its "
                "text, re-parsed by the extracted parser + scope specification in the node's scope, must be that node; (c) the same programs "
                "with one word replaced by an unbound name / ill-typed literal / illegal symbol: the excerpt of each scoping, typing or "
                "lexing diagnostic is parsed back and must quote the right lines and mark exactly the identifier, a subexpression node, or "
                "the symbol. Non-trivial: at least one line shown / node / diagnostic; distinct by text.",
        "trusted_base": TB_COMMON + [
            "modelled, not verified: `listing` is mirrored by hand (coq/Model/Listing.v) and tied to the code by the rendering comparison; the excerpt parser and renderer in ocaml/c15.ml are glue",
        ],
        "assumptions": ["ranges that no diagnostic produces (e.g. ending inside the indentation of a continuation line, where `listing` would slice backwards) are outside the property and not generated"],
    },
    "C03": {
        "level": "proof",
        "streams": ["C03", "MB"],
        "case_ms": 5000,
        "rule": "generated programs (fully annotated, annotations omitted, `_` in types; base, function, dependent and computed types, "
                "groups, polymorphic and dependent library-style programs) and, for each, two or three single-node perturbations (operand "
                "kind swapped, type replaced, annotation dropped or altered, argument / condition / branch replaced, binder implicitness "
                "flipped): every program the implementation ACCEPTS is validated - the extracted verified checker must infer a type for the "
                "zonked elaborated term that it finds convertible with the zonked reported type. Non-trivial: accepted; distinct by text.",
        "trusted_base": TB_COMMON + [
            "the validator is Oracle/Infer.v (whnf, convb, infer), proved sound against Spec/Typing.v (infer_sound, convb_sound, whnf_sound); the typing rules themselves (Spec/Typing.v: has_type, conv, red; type : type; holes as opaque type constants) are the specification and are trusted to be the language's rules",
            "hooks H1 / H3 (feature verif): counters of unresolved holes met by `open` / left below the cutoff by `signed_shift`, used only to attribute a failure to the recorded findings D9 / D19",
            "modelled, not verified: zonking (replacing a solved hole by its shifted solution) is done by the harness at export",
            "Model B (coq/Model/ModelB.v): store-passing mirror of type_check_rec / unify / normalize_weak_head / open-with-holes, tied to the code by the MB stream (verdict, zonked elaborated term and type with cells numbered by first occurrence)",
        ],
        "assumptions": ["soundness of the implementation's checker as a universal theorem is not claimed; the property is decided per accepted instance by a proved validator",
                        "instances on which the validator runs out of fuel are inconclusive"],
    },
    "C04": {
        "level": "proof",
        "streams": ["C04"],
        "case_ms": 5000,
        "rule": "generated terminating programs of base, function, dependent, computed and group-mentioning types: the implementation's value "
                "is validated by the extracted verified checker at the program's reported type (inferred type convertible with it), and its "
                "former must match the reported type's weak-head normal form (int -> literal, bool -> true/false, function type -> function, "
                "type -> a type). Non-trivial: accepted and evaluated to a value; distinct by text.",
        "trusted_base": TB_COMMON + [
            "the validator is Oracle/Infer.v (whnf, convb, infer), proved sound against Spec/Typing.v (infer_sound, convb_sound, whnf_sound); the typing rules themselves (Spec/Typing.v: has_type, conv, red; type : type; holes as opaque type constants) are the specification and are trusted to be the language's rules",
            "hooks H1 / H3 (feature verif): counters of unresolved holes met by `open` / left below the cutoff by `signed_shift`, used only to attribute a failure to the recorded findings D9 / D19",
            "modelled, not verified: zonking (replacing a solved hole by its shifted solution) is done by the harness at export",
            "Model B (coq/Model/ModelB.v): store-passing mirror of type_check_rec / unify / normalize_weak_head / open-with-holes, tied to the code by the MB stream (verdict, zonked elaborated term and type with cells numbered by first occurrence)",
        ],
        "assumptions": ["preservation as a universal theorem is not claimed (needs Pi-injectivity, hence confluence)"],
    },
    "C05": {
        "level": "proof",
        "streams": ["C05", "MB"],
        "case_ms": 5000,
        "rule": "fully annotated programs from the type-directed generator plus polymorphic / higher-order / dependent / recursive-group "
                "templates; each program whose parsed term the extracted verified checker certifies (so `well typed under the typing rules` "
                "is established by a proved checker, not by trusting the generator) must be accepted with a type the checker finds "
                "convertible with the certified one; for every accepted program the elaborated term (holes unresolved) must be the parsed "
                "source term, cell for cell. Non-trivial: accepted; distinct by text.",
        "trusted_base": TB_COMMON + [
            "the validator is Oracle/Infer.v (whnf, convb, infer), proved sound against Spec/Typing.v (infer_sound, convb_sound, whnf_sound); the typing rules themselves (Spec/Typing.v: has_type, conv, red; type : type; holes as opaque type constants) are the specification and are trusted to be the language's rules",
            "hooks H1 / H3 (feature verif): counters of unresolved holes met by `open` / left below the cutoff by `signed_shift`, used only to attribute a failure to the recorded findings D9 / D19",
            "modelled, not verified: zonking (replacing a solved hole by its shifted solution) is done by the harness at export",
            "Model B (coq/Model/ModelB.v): store-passing mirror of type_check_rec / unify / normalize_weak_head / open-with-holes, tied to the code by the MB stream (verdict, zonked elaborated term and type with cells numbered by first occurrence)",
        ],
        "assumptions": ["completeness of a unification-based checker is not provable here; the first sentence is decided per certified instance"],
    },
    "C06": {
        "level": "proof",
        "streams": ["C06"],
        "case_ms": 5000,
        "rule": "closed accepted programs of type int / bool from the typed generator: normalize_weak_head(t) must print the literal that "
                "evaluate(t) yields, unify(t,t) and unify(t, step^k t) (k <= 20, both argument orders) must succeed, contexts must be "
                "restored, and normalize_weak_head must equal the model's whnf; all closed hole-free terms <= 4 (5) nodes whose type the "
                "verified checker certifies and whose normal form exists, grouped by certified type: every pair (or 4k sampled pairs) in a "
                "group - unify(a,b) = unify(b,a) = (nf a = nf b) with function annotations erased. Non-trivial: ground program / terminating "
                "pair; distinct by case text.",
        "trusted_base": TB_COMMON + [
            "Spec/Typing.v `conv` is the definitional equality the theorems speak about; Oracle/Infer.v whnf/convb/nf mirror normalize_weak_head/unify on hole-free terms and are tied to the code by this stream",
        ],
        "assumptions": ["symmetry and agreement with equality of normal forms are theorems about the mirror convb/nf (convb_sym, convb_iff_nf); that unify on hole-free terms is this mirror is what the stream decides"],
    },
    "C12": {
        "level": "proof",
        "streams": ["C12"],
        "case_ms": 5000,
        "rule": "(pattern, instance) pairs: all closed well-typed normalising terms <= 4 (5) nodes and random closed terms of 3-28 nodes with "
                "1-3 subterms replaced by holes at their binder depth (shift = depth, home = top level), unified with the original in both "
                "argument orders, pattern against pattern, unrelated pairs, and hand-written occurs-check / scope-escape / one-cell-two-"
                "demands configurations. After a `true` result: the exported store must be acyclic, every solution closed, and the two "
                "sides zonked with the store must pass the proved conversion test; a hole-free term must unify with itself; the context "
                "must be restored. Non-trivial: every case; distinct by case text.",
        "trusted_base": TB_COMMON + [
            "validator: Oracle/Infer.v convb (convb_sound); zonking and the cycle / scope checks on the exported store are OCaml glue (ocaml/c12.ml)",
            "hooks H1 / H3 (feature verif): attribution of failures to the recorded findings D9 / D19",
        ],
        "assumptions": ["holes are written at top level (home depth 0) in the generated pairs; deeper homes are exercised only through the checker streams (C03, C05)"],
    },
    "C18": {
        "level": "proof",
        "streams": ["C18", "MB"],
        "case_ms": 5000,
        "rule": "(a) generated closed programs of function types, half of them prefixed by a two-definition group, and type-perturbed "
                "variants: 1-4 outer binder layers (annotated lambdas, whole groups) are peeled into the typing / definitions contexts "
                "exactly as the checker pushes them (parameters with offset 0, group members with offsets n..1) and the open body is checked "
                "under them: same verdict as the closed program, its type re-wrapped by the peeled binders (Pi / group_type) convertible "
                "with the closed type (proved conversion test), both contexts compared entry by entry before/after, also after rejections; "
                "(b) random contexts of 1-3 blocks (parameters whose types are closed or earlier variables; groups of 1-2 definitions that "
                "mention group members and outer variables) with random well-scoped terms: normalize_weak_head and unify under the context "
                "vs the proved-sound mirrors whnf / convb under the corresponding context. Non-trivial: something was peeled / the mirror "
                "terminates; distinct by case text.",
        "trusted_base": TB_COMMON + [
            "mirrors: Oracle/Infer.v whnf / convb under Spec/Typing.v contexts (lookup_ty / lookup_def with offsets), sound for red G / conv G",
        ],
        "assumptions": ["type_check under a context is compared with the closed wrapper on the implementation itself; Model B (coq/Model/ModelB.v) passes the contexts down functionally, so restoration is observed on the implementation, not proved"],
    },
    "C19": {
        "level": "proof",
        "streams": ["C19"],
        "case_ms": 5000,
        "rule": "generated accepted programs (types int / bool; fully annotated and with omitted annotations) and, for each, every "
                "rewrite applied once at a random applicable site - consistent renaming from a 12-name pool, redundant parentheses around a "
                "third of all operands, an unused definition, `if true then e else e`, the immediately applied annotated identity at the "
                "program's generated type, swapping adjacent independent function definitions, naming an arithmetic subexpression - and one "
                "random sequence of up to three rewrites, optionally re-parenthesised: (accepted?, value) of original and rewritten program "
                "through the implementation's pipeline must agree (values nameless; ground values exactly). The root of a function "
                "definition's right-hand side is not a site (it must stay a syntactic value). Non-trivial: both accepted; distinct by pair.",
        "trusted_base": TB_COMMON + [
            "no reference implementation is involved in the stream: both programs run through the implementation; the rewrites are generated by ocaml/gen_prog.ml",
        ],
        "assumptions": ["the type used by the identity wrapper is the generator's intended type of the program"],
    },
}

NOT_APPLICABLE = {}

MANIFEST_TEXT = {
    "C11": {
        "text": "The statement itself is a theorem: opening agrees with capture-avoiding substitution on named terms (open_is_substitution, "
                "at any binder depth, under the variable convention) and shifting with extending the naming context (shift_is_weakening), "
                "against a named-term specification (Spec/Named.v). The laws of the property (shift by zero, additivity, down-after-up, failure "
                "exactly on unbound variables, opening an absent variable, free-variable membership) are Coq theorems over the whole term "
                "language including multi-definition groups, for all cutoffs/amounts/indices, axiom-free. The model is a hand-written mirror of de_bruijn.rs/free_variables tied to the code by an "
                "exhaustive-small plus random correspondence run and by evaluating the same laws on the implementation's results.",
        "design_ref": "DESIGN.md section 4, C11",
        "note": "Trusted: Coq kernel, extraction (ExtrOcamlBasic), OCaml driver, Rust harness glue. The model/code tie is differential "
                "(all terms <= 3-4 nodes x parameter grid, random terms to 200 nodes), not a proof about the Rust text. usize/isize overflow excluded.",
        "technique": "Coq proof (structural induction with a nested-list induction principle) + extracted-model differential testing",
    },
    "C02": {
        "text": "`step` of the evaluator model is proved to be exactly the call-by-value small-step relation given by evaluation contexts "
                "and redex rules (step_iff_cbv), deterministic, with exact Z arithmetic and truncating division; recursive and mutually "
                "recursive groups are run inside Coq. The model is tied to src/evaluator.rs by comparing single steps on all small terms "
                "and values of generated programs, which are also compared with an independent environment-based interpreter run on the "
                "parsed source. That interpreter (environments, closures, a store of cells; no substitution or shifting) and the model "
                "are proved to agree - terminate together with the same observable value or the same stuck reason, diverge together - on "
                "EVERY closed hole-free program: groups of any shape, computed definitions, mutual recursion, forward references "
                "(interpreters_agree_G3; first proved for single value definitions: interpreters_agree, ground_agreement, eval_env_mono).",
        "design_ref": "DESIGN.md section 4, C02",
        "note": "Trusted: Coq kernel, extraction, OCaml driver, Rust harness. The model/code tie is differential. The reference "
                "interpreter is proved equivalent to the model on all closed hole-free programs. BigInt is modelled by Z.",
        "technique": "Coq proof that the evaluator model equals an evaluation-context CBV semantics + exhaustive single-step differential testing + 3-way program evaluation",
    },
    "C01": {
        "text": "Per-instance validation with a proved classifier: every accepted generated program is run; if it is stuck, the proved "
                "`stuck_reason` (complete taxonomy of stuck terms of the evaluator model, Theorem stuck_classified / outcome_classified) "
                "names the reason, and any reason other than division by zero is reported with the program as replay. The universal "
                "progress statement is refuted for today's code by four recorded findings (D7 groups; D9, D14, D19 holes). On the fragment "
                "where none of them can occur - fully annotated programs without definition groups - progress IS a theorem of the "
                "models: whatever the checker model accepts without a diagnostic evaluates, for every fuel, to a value of the "
                "reported type or to a term stuck on a division by zero (accepted_programs_are_safe = soundness of the checker model + "
                "progress and preservation of the typing rules, from confluence of the repaired definitional equality). For `a definition that is "
                "not yet available`: an executable corrected definition-order check after which no run stops on an unsubstituted group "
                "variable (order_ok_lazy_evaluate); the modelled guard accepts the D7 witnesses that the corrected check rejects.",
        "design_ref": "DESIGN.md section 4, C01; section 5",
        "note": "Trusted: Coq kernel, extraction, OCaml driver, harness. Known findings are matched by signature (reason + binder of the stuck variable / hook H1).",
        "technique": "Coq proof of progress for what the checker model accepts on hole-free group-free programs (soundness of the checker model + progress/preservation from confluence) + translation validation on the implementation: run + proved stuck-term classifier, type-directed program generation",
    },
    "C09": {
        "text": "Proved for every text: tokens returned by the tokenizer model partition the source (C09_tokenize_partition, axiom-free, over the "
                "tables regenerated from tokenizer.rs on every run), the tables produce each fixed token from exactly its own text, and the "
                "model can never reach the second pass's panic. The partition property "
                "(disjoint, in order, on character boundaries, exact lexemes, only whitespace/comments between, maximal munch, keywords as whole "
                "words, exact literal values) is the Coq function partition_ok, run on the implementation's tokens for all short strings over a "
                "class-covering alphabet and random Unicode text, together with full model/implementation token comparison. The "
                "universal partition theorem for the model is PROVED (C09_tokenize_partition: any text, any grapheme oracle).",
        "design_ref": "DESIGN.md section 4, C09",
        "note": "Trusted: Coq kernel, translator for the tables, extraction, OCaml driver (UTF-8 decoding), harness; Unicode classes and grapheme boundaries come from Rust.",
        "technique": "Coq proof of the partition theorem for the tokenizer model over generated tables + no-panic proof + executable oracle on implementation output + model differential testing",
    },
    "C10": {
        "text": "Kernel-checked on every run: the two line-break tables regenerated from tokenizer.rs equal the sets of tokens that can end / "
                "start an expression as the property describes (moving one token between the lists breaks the theorem for all inputs). The "
                "layout theorem (tokenize_layout) is proved of the tokenizer model for every input: a line-break terminator stands between two "
                "tokens exactly when the text between them contains a line break, the first can end and the second can start an expression; "
                "none leads, trails or repeats. The same rule (layout_ok) is run on the implementation's tokens, the model's tokens are "
                "compared with the implementation's, and invariance under re-layout is checked on the implementation directly. At the parser: "
                "token lists that differ only in which terminator kind (line break or `;`) separates are accepted together and build the "
                "same trees (layout_acceptance, layout_same_tree).",
        "design_ref": "DESIGN.md section 4, C10",
        "note": "Trusted: as C09.",
        "technique": "Coq proof of the layout theorem for the tokenizer model over generated tables + generated-table obligation (vm_compute) + executable layout oracle on implementation output + metamorphic re-layout testing",
    },
    "C07": {
        "text": "Kernel-checked on every run for all inputs: the parser skeleton regenerated from parser.rs (36 functions: ordered "
                "alternatives, consumed tokens, sub-parses) implements exactly the productions regenerated from grammar.y; committed "
                "sub-parses are ordered choices; every function is memoised; and every token list the parser model accepts is a sentence of the "
                "context-free grammar regenerated from grammar.y (parse_sound, by an invariant through the skeleton interpreter, error "
                "recovery and the memo table) AND CONVERSELY every sentence is accepted (parse_accepts_iff_sentence: an ordered-choice "
                "semantics refined by the model, first-two-token and FOLLOW tables computed from the generated grammar and checked closed "
                "by vm_compute, completeness by induction over derivations). The tree with left-associated chains "
                "and honoured parentheses, full consumption and names are decided by running the extracted executable parser model and an "
                "Earley recogniser of grammar.y against the implementation on all short token sequences, grammar derivations and their "
                "single-token edits. Tree shape, proved (Proofs/ReassocProofs.v): on every tree the parser model produces, the three "
                "re-association passes equal a three-line specification - flatten the right spine of unparenthesised nodes of one kind, "
                "re-associate every operand on its own, fold to the left - so application, `*` `/` and `+` `-` chains are left-associated, "
                "a parenthesised node is one operand, and the in-order sequence of leaves and operators is unchanged "
                "(parser_reassociate_spec, parser_tree_wf, reassoc_left / reassoc_paren); and the tree carries exactly the tokens: its in-order "
                "content (identifiers incl. binder names, literals, constants, operators, keywords, arrows, colons, braces, terminators - "
                "all but parentheses) equals the token list's, before and after re-association (parsed_tree_content, "
                "parser_output_content). The grammar is unambiguous (grammar_unambiguous: two derivation trees with the same root and yield are "
                "equal) and the tree the parser model builds is the image of THE derivation tree, re-associated (parser_builds_derivation): "
                "the whole property is a theorem of the model; the model is tied to parser.rs by the regenerated skeleton / grammar and by "
                "correspondence (also against an Earley recogniser and an independent chain reader).",
        "design_ref": "DESIGN.md section 4, C07",
        "note": "Trusted: Coq kernel, the skeleton/grammar translator, extraction, OCaml driver + Earley oracle, harness.",
        "technique": "Coq proof that the parser model accepts only sentences of the generated grammar + generated skeleton-vs-grammar obligations (vm_compute) + extracted packrat model differential testing + Earley completeness oracle",
    },
    "C08": {
        "text": "The scoping rules are a short stack-of-names function in Coq (scope_spec). Proved for every tree: the mirror of "
                "resolve_variables (name->depth map with insert/overwrite/remove and an error counter) reports no error exactly when the "
                "specification is defined, builds exactly the specification's term and restores its map (resolve_agrees, resolve_is_spec); "
                "hence the mirror of parse() accepts only with the specified term and always when it is defined and the definition-order "
                "check passes. The specification's behaviour on the characteristic cases (sibling re-use, shadowing, unbound names, `_`, "
                "group scope over annotations) is pinned by kernel-checked computations; the implementation's resolution is compared with "
                "the extracted specification and mirror on generated programs with re-used names and on unbinding/shadowing perturbations.",
        "design_ref": "DESIGN.md section 4, C08",
        "note": "Trusted: Coq kernel, extraction, OCaml driver, harness; the syntax tree comes from the parser model (C07).",
        "technique": "Coq proof that the resolver mirror equals the stack-of-names scoping specification + differential testing of the implementation against both with renaming and perturbation",
    },
    "C13": {
        "text": "Proved: the single hash-ordered iteration of the pipeline visits the SORTED duplicate-free list, which depends only on "
                "the set of elements (sort_dedup_set_only), so no iteration order of the HashSet can change the diagnostics; the list of "
                "hash-iteration sites is re-extracted from the source on every run and must equal the modelled one. The hash seed itself is "
                "explored: hundreds of files, each launched repeatedly as fresh processes and compared bytewise.",
        "design_ref": "DESIGN.md section 4, C13",
        "note": "Partial by nature: a Coq model cannot exhibit per-process seeds; the proof covers the order-independence, the launches cover the rest.",
        "technique": "Coq proof of order-independence of the sorted iteration + source scan of hash-iteration sites + multi-launch byte comparison",
    },
    "C14": {
        "text": "Proved for the models: the tokenizer never reaches its panic site, terminates (structural recursion) and a failing tokenizer "
                "or parser returns a non-empty error list; the mirror of parse() never reaches a panic site for any token list "
                "(parse_top_never_panics: a tree with an error node always carries an error factory - the [ref:error_check] invariant, "
                "proved through the memo table and all 36 parse functions - and check_definitions never meets a shifted hole). Explored on the real code: no panic / abort / hang on all short token sequences, "
                "token soup, edited grammar sentences, raw bytes and perturbed programs (library, catch_unwind + watchdog), and the exit-"
                "status / stdout / stderr contract of the release binary on byte strings including invalid UTF-8. Partial: that the parser "
                "model's fuel always suffices is proved (parse_top_within_fuel); for the checker stage, the typing-context lookup never misses on "
                "parse() output (checker_lookup_in_bounds) and, under the store-scoping invariant, neither do the normaliser's and the "
                "unifier's context lookups (unifyB_lookup_in_bounds, whnfB_lookup_in_bounds) - but type_check_rec does not maintain that "
                "invariant: recorded finding D19, a panic in normalize_weak_head on a well-formed program, found by the proof attempt and "
                "reproduced inside Coq (C14_lookup_out_of_bounds_D19). Conversely, for every program accepted by parse(), whenever hooks H1 / H3 are "
                "silent the whole checker run performs no out-of-range context lookup (checker_lookups_in_bounds).",
        "design_ref": "DESIGN.md section 4, C14",
        "note": "Stack exhaustion by syntactic depth beyond the explored sizes is outside the model (named limit D16).",
        "technique": "Coq proofs on the tokenizer/parser models (no panic, non-empty errors) + exhaustive short-input and random robustness runs under process isolation",
    },
    "C17": {
        "text": "Kernel-checked for all inputs: every parse function regenerated from parser.rs is memoised and the caching macros are the "
                "modelled ones (dropping one cache_check!, or making cache_return! conditional, breaks a generated obligation); the generated "
                "skeleton has no left recursion (no_left_recursion); and the packrat bound is a theorem of the parser model for every token "
                "list: at most one body execution per (nonterminal, position), misses <= 36*(tokens+1) (packrat_miss_bound), the "
                "error-recovery scan - the parser's only loop outside the memo table - costs at most 2*(tokens+1) steps per executed body "
                "(stage1_scans_le_misses, packrat_scan_bound), and the recursion stays within its linear fuel (parse_top_within_fuel). "
                "The passes that follow parsing are bounded too, by instrumented copies proved to compute the same results: each "
                "re-association pass visits every node once, resolution makes at most one call per node, a definition-order walk "
                "expands each definition at most once (reassociate_cost_bound, resolve_cost_bound, check_definitions_walk_cost). The bound is also checked on the real parser's own miss/scan "
                "counters over 21 scaling families up to thousands of tokens, well-formed and truncated, together with measured time growth "
                "per doubling; and the model's counters equal the implementation's on every explored sequence (C07). Time per step is "
                "measured, not modelled.",
        "design_ref": "DESIGN.md section 4, C17",
        "note": "Thresholds: misses <= 36*(tokens+1) (proved of the model); scans <= 2*(tokens+1)*misses (proved of the model) and <= 2*(tokens+1)^2 (measured margin); time x6 + 3 ms per doubling.",
        "technique": "Coq proof of the packrat bound and of termination for the parser model over the generated skeleton (all-memoised and no-left-recursion obligations by vm_compute) + hook counters against the bound + scaling measurement",
    },
    "C16": {
        "text": "The round-trip is checked on the implementation itself for every term former in every operand position of every other "
                "(exhaustive at one level, sampled at two) and for generated programs; the printer model (Coq, over the bare/parenthesised "
                "partition regenerated from term.rs) must print the same token kinds as the implementation. Proved of the printer model: for every term without D12 "
                "and without negative literals (the parser produces none) the printed tokens are a sentence of the grammar regenerated "
                "from grammar.y, each printing position at the nonterminal the printer intends (print_is_sentence); the exclusions are "
                "exact on 10395 small terms covering every printing position, non-sentences refuted by a verified recogniser; and the round "
                "trip at the level of structure: every token list with the printed kinds is accepted and, after re-association, has "
                "exactly the term's skeleton - operators, operands, grouping, implicitness, definitions, literals "
                "(print_reads_back_same_structure, by parser completeness + unambiguity + parser_builds_derivation). Names / indices are "
                "outside the kind-level model and are compared on the implementation; one "
                "genuine violation is a recorded finding (D12, pinned by a test in the repository).",
        "design_ref": "DESIGN.md section 4, C16; section 5 D12, D13",
        "note": "A failure is attributed to D12 only if the term contains an implicit function type with unused variable and the implementation printed exactly what the model prints.",
        "technique": "metamorphic round-trip on the implementation (exhaustive parent x child positions) + Coq printer model differential testing + generated partition obligation",
    },
    "C15": {
        "text": "Proved for the listing model: the lines shown are exactly those intersecting the range, numbered from 1, and marked sections "
                "stay inside the trimmed line; the model's rendering (gutter, overline column counted in characters) is compared bytewise "
                "with the implementation's. Proved for the listing model as well (Proofs/ListingExact.v): a character of a shown line is marked iff it "
                "starts inside the range, is not trailing whitespace and - unless the range starts strictly inside that line - is not "
                "leading indentation (marked_characters_exact); the shown text is the trimmed line; the overline counts characters, not "
                "bytes; token spans lie within the file on character boundaries. Proved for the parser model (Proofs/RangeProofs.v, an invariant of every parse call and of the "
                "memo table): every node of an accepted parse carries the byte range from the first byte of its first token to the last "
                "byte of its last token, children tile the parent's token interval as the production prescribes, parentheses widen only "
                "the parenthesised node, the root spans the input (parsed_tree_layout). That the implementation's ranges are these, and the "
                "diagnostics' choice of node and excerpt, are validated on the implementation with the extracted "
                "parser/scope specification as re-parser, including one minimal program per typing diagnostic and per scoping fault "
                "(every binder form bound twice, every position of an unbound name) with the exact text to be marked. One genuine violation is a recorded finding (D17).",
        "design_ref": "DESIGN.md section 4, C15; section 5 D10, D11, D17",
        "note": "Type diagnostics are required to mark the text of SOME subexpression node of the program (the exact node depends on the checker's rule).",
        "technique": "Coq proof on the listing model + rendering differential testing + re-parse-in-scope oracle on every node range + excerpt parse-back on single-fault programs",
    },
    "C03": {
        "text": "Translation validation with a PROVED validator: the independent checker for explicitly typed terms (Coq, extracted) is "
                "proved sound against declarative typing rules (infer_sound; axiom-free). Each program the implementation accepts is "
                "certified by it at the reported type; a program it cannot certify is reported with the failing program as replay. "
                "Perturbation streams aim at every unify side condition of the checker. Proved of the checker MODEL (Model B, compared with "
                "type_check case by case): on every hole-free program, acceptance without a diagnostic implies the elaborated term is the "
                "program and is well typed at a type definitionally equal to the reported one (tcB_sound_hole_free, a simulation up to "
                "zonking). With holes: for every run during which neither instrumented event occurs (hooks H1 / H3 silent) acceptance without "
                "a diagnostic implies the completed program is well typed at the reported type, provided the user's holes hold types "
                "(tcN_sound_closed; tcN_refines); the two recorded findings D9 and D19 are exactly those events, both reproduced inside Coq.",
        "design_ref": "DESIGN.md section 3.3 and section 4, C03",
        "note": "Per-instance certificates plus a soundness theorem for the checker model on hole-free programs; not a theorem about type_checker.rs. Failures in programs where hook H1 / H3 fired are attributed to D9 / D19.",
        "technique": "Coq proof of soundness of the checker model on all hole-free programs (simulation up to zonking) + translation validation of the implementation with a Coq-verified type checker (infer_sound) on accepted and perturbed generated programs",
    },
    "C04": {
        "text": "The value the implementation computes is certified by the proved validator at the program's reported type, and its former "
                "is compared with the type's weak-head normal form. Proved on hole-free group-free programs (from confluence): a step keeps "
                "the type, values of type int / bool / a function type are literals / true or false / functions, and what the checker model "
                "accepts at int yields an integer literal or stops on a division by zero (preservation_has_type, type_safety_has_type, "
                "canonical forms, accepted_int_programs_yield_literals), and with definition groups of at most one definition each - recursive "
                "functions, computed definitions, nested anywhere - what the checker model accepts evaluates to a value of the reported type "
                "and shape (preservation_groups_sg, accepted_values_have_the_reported_type / _shape); groups of any size for simply typed "
                "programs (simple_safe). For mutually recursive dependently annotated groups stepwise subject reduction of the typing rules is "
                "refuted inside Coq (sr_fails_values; divergent witnesses). With holes: per-instance. Recorded findings: D9, D19.",
        "design_ref": "DESIGN.md section 4, C04",
        "note": "As C03.",
        "technique": "Coq proofs of subject reduction / canonical forms (group-free; single-definition groups; simply typed groups of any size) composed with soundness of the checker model + translation validation of (value, reported type) pairs on the implementation",
    },
    "C05": {
        "text": "Well-typedness of each fully annotated generated program is established by the proved validator on the parser's output; "
                "the implementation must then accept it with a convertible type, and the elaborated term must equal the source term with "
                "only cells filled (compared structurally, names and hole identities included). Proved of the checker MODEL against the "
                "verified checker, on hole-free programs whose groups are on the definition spine: it never reports an error when the "
                "verified checker accepts, its type is the verified one with reductions done, and it answers for every large enough "
                "fuel whenever each applied function type's codomain has a weak-head normal form (tcB_no_false_rejection_spine, "
                "tcB_complete_hole_free_spine; without that requirement completeness is refuted inside Coq by a program on which the "
                "model diverges), and the same with definitionally equal types for single-definition groups nested anywhere "
                "(tcB_complete_hole_free; checkers_incomparable: the checkers differ only by non-termination); elaboration identity for every "
                "input (tcB_elab_identity).",
        "design_ref": "DESIGN.md section 4, C05",
        "note": "As C03; completeness of type_checker.rs itself is decided per certified instance; the theorems are about Model B.",
        "technique": "Coq proofs of completeness of the checker model against the verified checker (spine programs) and of elaboration identity + certified generation (Coq-verified checker) + acceptance check + structural elaboration-identity comparison on the implementation",
    },
    "C06": {
        "text": "Proved - coherence, the property's first sentence: on every hole-free program (groups, recursion, any fuel, any well-formed "
                "context) if running yields a literal / true / false then the checker's normaliser yields the same one "
                "(whnf_evaluate_lit_ctx), from confluence of the definitional equality (parallel reduction, complete developments, "
                "Church-Rosser; Proofs/Confluence*.v), which is also CONSISTENT (distinct type formers and literals are not convertible, "
                "function types injective) and decided by the conversion test on closed hole-free terms (convb_decides_conv). A defect of "
                "the specification was found on the way and repaired: with the group rule as first written every two terms were "
                "convertible (conv_old_total is kept as a regression). Proved before: every evaluation step and every value a term evaluates to is definitionally equal to the term (step_in_conv, "
                "evaluate_in_conv - the group-unfolding step of the evaluator is shown to agree with the normaliser's whole-group "
                "substitution); a weak-head normal form is never a group; the conversion test never refutes t = t and its success implies "
                "definitional equality; the conversion test is symmetric (convb_sym) and, whenever both sides have normal forms, answers true "
                "exactly when the normal forms with function annotations erased are equal (convb_iff_nf); a normal form is definitionally "
                "equal to its term (nf_sound). The store-passing mirror of normalize_weak_head / unify that is compared with the code case by "
                "case (Model B whnfB / unifyB) is proved to BE this mirror on hole-free terms - store untouched, same weak-head normal form "
                "at the same fuel, same verdict including the syntactic shortcut (whnfB_whnf, unifyB_convb, unifyB_iff_nf). Coherence on "
                "ground programs (whnf literal = run-time literal), success on reducts and the agreement of the implementation's unify with "
                "the mirrors are decided on generated programs and on all small well-typed pairs.",
        "design_ref": "DESIGN.md section 4, C06",
        "note": "Proof about the mirror of normalize_weak_head/unify on hole-free terms; the mirror is tied to the code by correspondence.",
        "technique": "Coq proofs about definitional equality (step_in_conv, convb_sym, convb_iff_nf, nf_sound, convb_refl, whnf_never_let) + differential and metamorphic testing of normalize_weak_head/unify",
    },
    "C12": {
        "text": "PROVED of Model B, the mirror compared with unify on every case (verdict and store): for every unification during which neither "
                "instrumented event occurs - `open` meeting an unsolved hole (hook H1, finding D9), `signed_shift` leaving an unsolved hole "
                "below the cutoff (hook H3, finding D19) - success implies that the two sides are definitionally equal under EVERY completion "
                "of the remaining holes and that every recorded solution is well scoped where its hole was written (unifyN_consistent, "
                "unifyN_refines; both events shown necessary by computed counterexamples), so a failure with both counters silent cannot be "
                "a recorded finding. On the implementation, per instance with a proved conversion test: after each successful unification the recorded solutions are "
                "substituted and the two sides must be certified definitionally equal (convb_sound); solutions must be closed and the store "
                "acyclic; unify(t,t) on hole-free t must succeed (mirror: convb_refl). Hole-punched pairs at every position and depth, "
                "occurs-check (direct and through cells solved earlier) and scope-escape configurations. Proved of Model B (compared with "
                "the implementation's verdict and store on every case): unification and type checking only extend the store - a recorded "
                "solution is never changed - the cell unify assigns is unsolved, and the store stays acyclic (no hole is ever solved by a "
                "term containing itself: unifyB_acyclic, tcB_acyclic, occursB_sound), and - with one home depth per cell and no hole local to "
                "the term that mentions it - every recorded solution is well scoped where its hole was written (unifyB_solutions_scoped; "
                "the side condition is necessary and type_check_rec does not maintain it: C12_scoping_refuted_D19). D9 and D19 are recorded findings.",
        "design_ref": "DESIGN.md section 4, C12",
        "note": "Consistency, scoping (outside D9 / D19), monotonicity and acyclicity of the store are theorems of Model B; the implementation's own store is validated per instance.",
        "technique": "Coq proof of consistency and scoping of unification on Model B for all runs outside the two instrumented events (both shown necessary) + store monotonicity/acyclicity + translation validation of the implementation's unify results with a Coq-verified conversion test",
    },
    "C18": {
        "text": "Proved: what the depth offsets of context entries mean (C18_lookup_param / _under_binder / _group: the `index + 1 - "
                "offset` law gives a parameter's type lifted over its own binder and a group member's annotation and definition as "
                "written), that the normaliser / conversion mirrors are sound under an arbitrary context, and that inserting any block of "
                "entries anywhere into a context commutes with normalisation and the conversion test at every fuel, so that a closed term "
                "behaves under any context as in the empty one (whnf_insert, convb_insert, whnf_closed_under; hole-free terms); the verified "
                "checker itself gives the same verdict and the shifted type under the extended context, and a term that does not mention "
                "the inserted block checks without it (infer_insert, infer_closed_under, infer_strengthen). The implementation is then "
                "compared with those mirrors under random contexts mixing parameters and definitions, and type_check of an open body under "
                "the peeled context is compared with the closed program (verdict, re-wrapped type, contexts entry by entry before/after, "
                "including rejections part-way).",
        "design_ref": "DESIGN.md section 4, C18",
        "note": "Restoration of contexts is observed on the implementation (every explored outcome), not proved for a mirror of type_check_rec.",
        "technique": "Coq proofs of the offset/lookup laws + differential testing of whnf/unify under contexts + peel-and-compare metamorphic testing of type_check",
    },
    "C19": {
        "text": "Proved on the evaluator model: the if-true wrapper, the applied identity and an unused value definition evaluate to the "
                "wrapped expression (the last through a proved de Bruijn law); name resolution is invariant under every injective renaming of "
                "identifiers that fixes `_`, e.g. swapping a bound name with a fresh one (scope_spec_rename). All rewrites of the property, and sequences of them, are "
                "checked as metamorphic relations on the implementation itself for generated programs at random applicable sites "
                "(acceptance and value). Proved for the verified checker and the evaluator model: the four wrappers - if-true, annotated "
                "identity, unused definition, naming by a definition - at the root or in head position, chained and undone in any order, "
                "change neither the set of accepted types nor the outcome (value, stuck reason, divergence): rw_sound; any permutation of "
                "adjacent function definitions of a group, anywhere in the program, preserves the outcome (permute_value_definitions_outcome), "
                "and exchanging definitions preserves typability and acceptance by the verified checker (swap_defs_typable_iff, "
                "infer_swap_defs_accepts); parenthesising any sub-derivation other than the unparenthesised tail of a chain of the same kind "
                "leaves the raw and final trees unchanged (parens_redundant). "
                "Genuine violations are recorded findings (D15; D7 and D9 through reordering).",
        "design_ref": "DESIGN.md section 4, C19",
        "note": "Partial proof: acceptance-side invariance of parentheses, reordering and of the implementation's own checker is decided by the stream.",
        "technique": "Coq proofs of the evaluation-side rewrite laws and of renaming invariance of name resolution + metamorphic testing of all rewrites and rewrite sequences on the implementation",
    },
}
