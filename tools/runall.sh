#!/bin/sh
# the seed `vp check` exports is 1: use it unless told otherwise
VERIF_SEED=${VERIF_SEED:-1}; export VERIF_SEED
# Runs every registered quick check on the current tree (evidence files are rewritten).
cd "$(dirname "$0")/.."
rc=0
for p in $(python3 -c "import json;print(' '.join(c['property_id'] for c in json.load(open('MANIFEST.json'))['checks']))"); do
  ./check run $p --tier ${1:-quick} || rc=1
done
exit $rc
