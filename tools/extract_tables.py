"""Translator (T) of DESIGN 2.3: regenerates coq/Gen/*.v from /repo's working tree.
Fail-closed: an unrecognised source shape aborts the extraction of that table (the previous file is
kept) and is reported; it never guesses."""
import hashlib
import os


def generate(repo, outdir):
    os.makedirs(outdir, exist_ok=True)
    msgs = []
    ok = True
    for name, fn in GENERATORS:
        try:
            text = fn(repo)
        except Unrecognised as e:
            ok = False
            msgs.append("%s: unrecognised (%s)" % (name, e))
            continue
        path = os.path.join(outdir, name)
        old = open(path).read() if os.path.exists(path) else None
        if old != text:
            with open(path, "w") as f:
                f.write(text)
            msgs.append("%s: regenerated (changed)" % name)
        else:
            msgs.append("%s: regenerated (identical)" % name)
    return ok, "; ".join(msgs) if msgs else "no generated tables yet"


class Unrecognised(Exception):
    pass


import re


def _read(repo, rel):
    with open(os.path.join(repo, rel), encoding="utf-8") as f:
        return f.read()


def _strip_comments(src):
    src = re.sub(r"/\*.*?\*/", "", src, flags=re.S)
    return re.sub(r"//[^\n]*", "", src)


KIND = {  # Rust token variant -> Coq constructor of Model/Token.v (fail-closed on anything else)
    "Asterisk": "KAsterisk", "Boolean": "KBoolean", "Colon": "KColon", "DoubleEquals": "KDoubleEquals",
    "Else": "KElse", "Equals": "KEquals", "False": "KFalse", "GreaterThan": "KGreaterThan",
    "GreaterThanOrEqualTo": "KGreaterThanOrEqualTo", "Identifier(_)": "KIdentifier", "If": "KIf",
    "Integer": "KInteger", "IntegerLiteral(_)": "KIntegerLiteral", "LeftCurly": "KLeftCurly",
    "LeftParen": "KLeftParen", "LessThan": "KLessThan", "LessThanOrEqualTo": "KLessThanOrEqualTo",
    "Minus": "KMinus", "Plus": "KPlus", "RightCurly": "KRightCurly", "RightParen": "KRightParen",
    "Slash": "KSlash", "Terminator(TerminatorType::LineBreak)": "KLineBreak",
    "Terminator(TerminatorType::Semicolon)": "KSemicolon", "Then": "KThen", "ThickArrow": "KThickArrow",
    "ThinArrow": "KThinArrow", "True": "KTrue", "Type": "KType",
}


def _kind(v):
    v = v.strip()
    if v not in KIND:
        raise Unrecognised("token variant %r" % v)
    return KIND[v]


def _arms(src):
    """Split the body of `match c {` in tokenize into (pattern, body) arms by brace matching."""
    m = re.search(r"match c \{", src)
    if not m:
        raise Unrecognised("match c {")
    i = m.end()
    arms = []
    while True:
        while src[i] in " \n\t":
            i += 1
        if src[i] == "}":
            break
        j = src.index("=>", i)
        pat = src[i:j].strip()
        k = j + 2
        while src[k] in " \n\t":
            k += 1
        if src[k] == "{":
            depth, e = 0, k
            while True:
                if src[e] == "{":
                    depth += 1
                elif src[e] == "}":
                    depth -= 1
                    if depth == 0:
                        break
                e += 1
            body = src[k:e + 1]
            i = e + 1
        elif src.startswith("match", k):
            b = src.index("{", k)
            depth, e = 0, b
            while True:
                if src[e] == "{":
                    depth += 1
                elif src[e] == "}":
                    depth -= 1
                    if depth == 0:
                        break
                e += 1
            body = src[k:e + 1]
            i = e + 1
        else:
            raise Unrecognised("arm body after %r" % pat)
        while src[i] in " \n\t,":
            i += 1
        arms.append((pat, body))
    return arms


def _table(body, what):
    """`Variant::A | Variant::B => false, Variant::C | ... => true` -> {kind: bool}"""
    res = {}
    for alts, val in re.findall(r"((?:Variant::[A-Za-z]+(?:\([A-Za-z_:]*\))?\s*\|?\s*)+)=>\s*(true|false)\b", body):
        for v in re.findall(r"Variant::([A-Za-z]+(?:\([A-Za-z_:]*\))?)", alts):
            k = _kind(v)
            if k in res:
                raise Unrecognised("%s: %s listed twice" % (what, k))
            res[k] = (val == "true")
    return res


def gen_token_tables(repo):
    tok = _strip_comments(_read(repo, "src/tokenizer.rs"))
    tkn = _strip_comments(_read(repo, "src/token.rs"))
    test = tok.find("#[cfg(test)]")
    if test > 0:
        tok = tok[:test]
    kws = dict(re.findall(r'pub const ([A-Z_]+_KEYWORD): &str = "([a-z]+)";', tkn))
    if len(kws) != 8:
        raise Unrecognised("keyword constants (%d)" % len(kws))
    arms = _arms(tok)
    symbols, pairs, seen_special = [], [], []
    word_body = None
    linebreak_body = None
    order = []
    for pat, body in arms:
        m = re.fullmatch(r"'(\\?.)'", pat)
        if m and m.group(1) == "\\n":
            linebreak_body = body
            order.append("nl")
            continue
        if m and m.group(1) == "#":
            if not re.search(r"while let Some\(&\(_, d\)\) = iter\.peek\(\) \{\s*if d == '\\n' \{\s*break;\s*\}\s*iter\.next\(\);\s*\}", body):
                raise Unrecognised("comment loop")
            order.append("hash")
            continue
        if m:
            ch = m.group(1)
            peeks = re.findall(r"Some\(&\(_, '(.)'\)\)", body)
            variants = re.findall(r"variant: Variant::([A-Za-z]+(?:\(TerminatorType::[A-Za-z]+\))?)", body)
            ends = re.findall(r"end: i \+ (\d)", body)
            if not peeks:
                if len(variants) != 1 or ends != ["1"] or "iter." in body:
                    raise Unrecognised("symbol arm %r" % ch)
                symbols.append((ord(ch), _kind(variants[0])))
                order.append("sym")
            else:
                if len(variants) != len(peeks) + 1 or ends != ["2"] * len(peeks) + ["1"] or body.count("iter.next()") != len(peeks):
                    raise Unrecognised("look-ahead arm %r" % ch)
                pairs.append((ord(ch), [(ord(p), _kind(v)) for p, v in zip(peeks, variants)], _kind(variants[-1])))
                order.append("pair")
            continue
        if pat == "_ if c.is_alphabetic() || c == '_'":
            word_body = body
            order.append("word")
            continue
        if pat == "'0'..='9'":
            if not re.search(r"if d\.is_ascii_digit\(\) \{\s*iter\.next\(\);\s*\} else \{\s*end = \*j;\s*break;", body) or \
                    "BigInt::parse_bytes(&source_contents.as_bytes()[i..end], 10).unwrap()" not in body:
                raise Unrecognised("digit arm")
            order.append("digit")
            continue
        if pat == "_ if c.is_whitespace()":
            if body.strip() != "{}":
                raise Unrecognised("whitespace arm")
            order.append("ws")
            continue
        if pat == "_":
            if "GraphemeCursor::new(i, source_contents.len(), true)" not in body or \
                    "cursor.next_boundary(source_contents, 0).unwrap().unwrap()" not in body or \
                    "SourceRange { start: i, end }" not in body:
                raise Unrecognised("error arm")
            order.append("err")
            continue
        raise Unrecognised("arm pattern %r" % pat)
    if [o for o in order if o not in ("sym", "pair")] != ["nl", "word", "digit", "ws", "hash", "err"]:
        raise Unrecognised("arm order %r" % order)
    if word_body is None or linebreak_body is None:
        raise Unrecognised("word / line break arm")
    if not re.search(r"if d\.is_alphanumeric\(\) \|\| \*d == '_' \{\s*iter\.next\(\);\s*\} else \{\s*end = \*j;\s*break;", word_body):
        raise Unrecognised("word loop")
    chain = re.findall(r"&source_contents\[i\.\.end\] == ([A-Z_]+)\s*\{\s*tokens\.push\(Token \{\s*source_range: SourceRange \{ start: i, end \},\s*variant: Variant::([A-Za-z]+),", word_body)
    if len(chain) != 8 or "variant: Variant::Identifier(&source_contents[i..end])" not in word_body:
        raise Unrecognised("keyword chain (%d)" % len(chain))
    keywords = [(kws[c], _kind(v)) for c, v in chain]
    if "!tokens.is_empty()" not in linebreak_body or "tokens.last().unwrap().variant" not in linebreak_body:
        raise Unrecognised("line break guard")
    ends = _table(linebreak_body, "first-pass table")
    # second pass
    m = re.search(r"let mut filtered_tokens = vec!\[\];(.*)Ok\(filtered_tokens\)", tok, flags=re.S)
    if not m:
        raise Unrecognised("second pass")
    second = m.group(1)
    if "if let Variant::Terminator(TerminatorType::LineBreak) = token.variant" not in second or \
            "if let Some(next_token) = tokens_iter.peek()" not in second or \
            not re.search(r"Variant::Terminator\(TerminatorType::LineBreak\) => \{\s*panic!", second):
        raise Unrecognised("second pass shape")
    starts = _table(second, "second-pass table")
    allk = sorted(set(KIND.values()))
    if sorted(ends) != allk:
        raise Unrecognised("first-pass table does not list every token kind")
    if sorted(list(starts) + ["KLineBreak"]) != allk:
        raise Unrecognised("second-pass table does not list every token kind")

    def lst(xs):
        return "[" + "; ".join(xs) + "]"
    out = ["(* GENERATED by tools/extract_tables.py from /repo/src/tokenizer.rs and /repo/src/token.rs. Do not edit. *)",
           "From Coq Require Import List NArith Bool.", "Import ListNotations.", "Require Import Gram.Model.Token.", "",
           "Definition symbol_table : list (N * tkind) :=",
           "  " + lst("(%d%%N, %s)" % p for p in symbols) + ".", "",
           "Definition pair_table : list (N * (list (N * tkind) * tkind)) :=",
           "  " + lst("(%d%%N, (%s, %s))" % (c, lst("(%d%%N, %s)" % q for q in ps), alone) for c, ps, alone in pairs) + ".", "",
           "Definition keyword_table : list (list N * tkind) :=",
           "  " + lst("(%s, %s)" % (lst("%d%%N" % ord(ch) for ch in w), k) for w, k in keywords) + ".", "",
           "(* first pass: a line break after a token of this kind becomes a terminator *)",
           "Definition ends_table : list (tkind * bool) :=",
           "  " + lst("(%s, %s)" % (k, "true" if ends[k] else "false") for k in allk) + ".", "",
           "(* second pass: a line-break terminator before a token of this kind is kept *)",
           "Definition starts_table : list (tkind * bool) :=",
           "  " + lst("(%s, %s)" % (k, "true" if starts[k] else "false") for k in allk if k != "KLineBreak") + ".", ""]
    return "\n".join(out)


NT = {  # Rust Nonterminal / function suffix -> Coq constructor of Model/Grammar.v
    "Term": "Term", "Type": "Type_", "Variable": "Variable_", "Lambda": "Lambda", "LambdaImplicit": "LambdaImplicit",
    "AnnotatedLambda": "AnnotatedLambda", "AnnotatedLambdaImplicit": "AnnotatedLambdaImplicit", "Pi": "Pi",
    "PiImplicit": "PiImplicit", "NonDependentPi": "NonDependentPi", "Application": "Application", "Let": "Let",
    "Integer": "Integer", "IntegerLiteral": "IntegerLiteral", "Negation": "Negation", "Sum": "Sum",
    "Difference": "Difference", "Product": "Product", "Quotient": "Quotient", "LessThan": "LessThan",
    "LessThanOrEqualTo": "LessThanOrEqualTo", "EqualTo": "EqualTo", "GreaterThan": "GreaterThan",
    "GreaterThanOrEqualTo": "GreaterThanOrEqualTo", "Boolean": "Boolean", "True": "True_", "False": "False_",
    "If": "If", "Group": "Group", "Atom": "Atom", "SmallTerm": "SmallTerm", "MediumTerm": "MediumTerm",
    "LargeTerm": "LargeTerm", "HugeTerm": "HugeTerm", "GiantTerm": "GiantTerm", "JumboTerm": "JumboTerm",
}
SPECIAL = ("Let", "If", "Group")


def _camel(snake):
    return "".join(p.capitalize() for p in snake.split("_"))


def _fn_bodies(src):
    """{snake_name: body} for every `fn parse_x<'a>(` by brace matching."""
    res = {}
    for m in re.finditer(r"\nfn parse_([a-z_]+)<'a>\(", src):
        b = src.index("{", src.index("-> (Term<'a>, usize, bool)", m.end()))
        depth, e = 0, b
        while True:
            if src[e] == "{":
                depth += 1
            elif src[e] == "}":
                depth -= 1
                if depth == 0:
                    break
            e += 1
        res[m.group(1)] = src[b:e + 1]
    return res


def _macro_calls(body):
    """Top-level sequence of recognised statements in a regular parse function."""
    out = []
    pos = 0
    pat = re.compile(
        r"(cache_check!\(cache, (\w+), start\))"
        r"|(try_return!\(\s*cache,\s*cache_key,\s*parse_(\w+)\(cache, tokens, start\),?\s*\))"
        r"|(consume_token_([01])!\(\s*cache,\s*cache_key,\s*tokens,\s*(\w+),\s*(\w+),)"
        r"|(try_eval!\(\s*cache,\s*cache_key,\s*parse_(\w+)\(cache, tokens, (\w+)\),?\s*\))"
        r"|(=\s*parse_(\w+)\(cache, tokens, (\w+)\);)"
        r"|(cache_return!\()")
    for m in pat.finditer(body):
        if m.group(1):
            out.append(("check", m.group(2)))
        elif m.group(3):
            out.append(("alt", m.group(4)))
        elif m.group(5):
            out.append(("consume", m.group(8), m.group(7)))
        elif m.group(9):
            out.append(("try", m.group(10), m.group(11)))
        elif m.group(12):
            out.append(("commit", m.group(13), m.group(14)))
        elif m.group(15):
            out.append(("return",))
    return out


TOKV = {k.split("(")[0]: v for k, v in KIND.items() if not k.startswith("Terminator")}


# the caching macros as the model reads them (comments and the guarded hook line removed, blanks collapsed):
# cache_check! looks the key up and returns a hit; cache_return! stores unconditionally and returns;
# try_return! / try_eval! leave through cache_return!. `memoised` below means exactly this.
MODELLED_MACROS = {
    "cache_check": "($cache:ident, $nonterminal:ident, $start:expr $(,)?) => {{ let start = $start; let cache_key = (Nonterminal::$nonterminal, start); if let Some(result) = $cache.get(&cache_key) { return result.clone(); } cache_key }};",
    "cache_return": "($cache:ident, $cache_key:expr, $value:expr $(,)?) => {{ let cache_key = $cache_key; let value = $value; $cache.insert(cache_key, value.clone()); return value; }};",
    "try_return": "($cache:ident, $cache_key:expr, $value:expr $(,)?) => {{ let cache_key = $cache_key; let value = $value; if let Variant::ParseError = value.0.variant { } else { cache_return!($cache, cache_key, value) } }};",
    "try_eval": "($cache:ident, $cache_key:expr, $value:expr $(,)?) => {{ let cache_key = $cache_key; let value = $value; if let Variant::ParseError = value.0.variant { cache_return!($cache, cache_key, value) } value }};",
}


def _macros_as_modelled(src):
    for name, want in MODELLED_MACROS.items():
        m = re.search(r"macro_rules! %s \{(.*?)\n\}\n" % name, src, re.S)
        if not m:
            return False
        body = re.sub(r'#\[cfg\(feature = "verif"\)\]\s*crate::verif_hooks::bump\([^)]*\);', "", m.group(1))
        if re.sub(r"\s+", " ", body).strip() != want:
            return False
    return True


def gen_parser_skeleton(repo):
    src = _strip_comments(_read(repo, "src/parser.rs"))
    macros_ok = _macros_as_modelled(src)
    test = src.find("#[cfg(test)]")
    if test > 0:
        src = src[:test]
    m = re.search(r"enum Nonterminal \{([^}]*)\}", src)
    if not m:
        raise Unrecognised("Nonterminal enum")
    enum = [x.strip() for x in m.group(1).split(",") if x.strip()]
    if enum != list(NT.keys()):
        raise Unrecognised("Nonterminal enum differs from the modelled one: %s" % enum)
    bodies = _fn_bodies(src)
    if sorted(_camel(k) for k in bodies) != sorted(NT):
        raise Unrecognised("parse_* functions: %s" % sorted(bodies))
    skeleton, memo = [], []
    for snake, body in bodies.items():
        name = _camel(snake)
        calls = _macro_calls(body)
        memoised = bool(calls) and calls[0] == ("check", name)
        # every exit must go through cache_return!/try_return!/try_eval!/consume_token: no bare `return`
        if re.search(r"\breturn\b", body):
            memoised = False
        if not macros_ok:
            memoised = False
        memo.append((NT[name], memoised))
        rest = [c for c in calls if c[0] != "check"]
        if name in SPECIAL:
            skeleton.append((NT[name], "FSpecial"))
            continue
        if rest and rest[-1] == ("return",) and all(c[0] == "alt" for c in rest[:-1]) and len(rest) >= 2:
            if "error_term(tokens, start," not in body:
                raise Unrecognised("choice function %s: failure case" % name)
            skeleton.append((NT[name], "FChoice [%s]" % "; ".join(NT[_camel(c[1])] for c in rest[:-1])))
            continue
        if rest and rest[-1] == ("return",) and all(c[0] in ("consume", "try", "commit") for c in rest[:-1]):
            steps = []
            cur = "start"
            for c in rest[:-1]:
                if c[0] == "consume":
                    if c[2] != cur:
                        raise Unrecognised("%s: consume at %s, expected %s" % (name, c[2], cur))
                    if c[1] not in TOKV:
                        raise Unrecognised("%s: token %s" % (name, c[1]))
                    steps.append("SConsume %s" % TOKV[c[1]])
                else:
                    if c[2] != cur:
                        raise Unrecognised("%s: sub-parse at %s, expected %s" % (name, c[2], cur))
                    steps.append("%s %s" % ("STry" if c[0] == "try" else "SCommit", NT[_camel(c[1])]))
                cur = "next"
            skeleton.append((NT[name], "FSeq [%s]" % "; ".join(steps)))
            continue
        raise Unrecognised("shape of parse_%s: %s" % (snake, calls))
    # the top-level function: the three re-association passes in order, then resolve, then check
    m = re.search(r"reassociate_sums_and_differences\(\s*None,\s*&reassociate_products_and_quotients\(None, &reassociate_applications\(None, &term\)\),?\s*\)", src)
    if not m:
        raise Unrecognised("order of the re-association passes in parse()")
    if not re.search(r"let \(term, next, _\) = parse_term\(&mut cache, tokens, 0\);", src) or \
            "if error_factories.is_empty() && next != tokens.len()" not in src:
        raise Unrecognised("parse(): start symbol / leftover-token check")
    order = [NT[k] for k in NT]
    sk = dict(skeleton)
    mm = dict(memo)
    out = ["(* GENERATED by tools/extract_tables.py from /repo/src/parser.rs. Do not edit. *)",
           "From Coq Require Import List Bool.", "Import ListNotations.",
           "Require Import Gram.Model.Token Gram.Model.Grammar.", "",
           "Definition skeleton : list (nt * fdesc) :=", "  ["]
    out.append(";\n".join("   (%s, %s)" % (n, sk[n]) for n in order))
    out += ["  ].", "", "(* does the function open with cache_check! and leave only through the caching macros? *)",
            "Definition memo_flags : list (nt * bool) :=",
            "  [" + "; ".join("(%s, %s)" % (n, "true" if mm[n] else "false") for n in order) + "].", ""]
    return "\n".join(out)


GSYM = {
    "ASTERISK": "GT KAsterisk", "BOOLEAN": "GT KBoolean", "COLON": "GT KColon", "DOUBLE_EQUALS": "GT KDoubleEquals",
    "ELSE": "GT KElse", "EQUALS": "GT KEquals", "FALSE": "GT KFalse", "GREATER_THAN": "GT KGreaterThan",
    "GREATER_THAN_OR_EQUAL": "GT KGreaterThanOrEqualTo", "IDENTIFIER": "GT KIdentifier", "IF": "GT KIf",
    "INTEGER": "GT KInteger", "INTEGER_LITERAL": "GT KIntegerLiteral", "LEFT_CURLY": "GT KLeftCurly",
    "LEFT_PAREN": "GT KLeftParen", "LESS_THAN": "GT KLessThan", "LESS_THAN_OR_EQUAL": "GT KLessThanOrEqualTo",
    "MINUS": "GT KMinus", "PLUS": "GT KPlus", "RIGHT_CURLY": "GT KRightCurly", "RIGHT_PAREN": "GT KRightParen",
    "SLASH": "GT KSlash", "TERMINATOR": "GTerminator", "THEN": "GT KThen", "THICK_ARROW": "GT KThickArrow",
    "THIN_ARROW": "GT KThinArrow", "TRUE": "GT KTrue", "TYPE": "GT KType",
}


def gen_grammar(repo):
    src = _read(repo, "grammar.y")
    src = re.sub(r"/\*.*?\*/", "", src, flags=re.S)
    parts = src.split("%%")
    if len(parts) < 2:
        raise Unrecognised("grammar.y sections")
    tokens = re.findall(r"%token (\w+)", parts[0])
    if sorted(tokens) != sorted(GSYM):
        raise Unrecognised("grammar.y tokens: %s" % tokens)
    rules = parts[1]
    prods = []
    # a rule ends at `;` or (for the one rule that lacks it) before the next `name:`
    for m in re.finditer(r"(\w+)\s*:(.*?)(?=;|\n\w+\s*:|\Z)", rules, flags=re.S):
        lhs = _camel(m.group(1))
        if lhs not in NT:
            raise Unrecognised("grammar.y nonterminal %s" % m.group(1))
        for alt in m.group(2).split("|"):
            syms = alt.split()
            rhs = []
            for sy in syms:
                if sy == "%empty":
                    continue
                if sy in GSYM:
                    rhs.append(GSYM[sy])
                elif _camel(sy) in NT:
                    rhs.append("GN %s" % NT[_camel(sy)])
                elif sy == "let_annotation":
                    rhs.append("LETANN")
                else:
                    raise Unrecognised("grammar.y symbol %s" % sy)
            prods.append((lhs, rhs))
    # let_annotation is the only helper nonterminal: expand it (empty | COLON small_term)
    if "LetAnnotation" in [p[0] for p in prods]:
        raise Unrecognised("let_annotation handling")
    return prods


def gen_grammar_v(repo):
    src = _read(repo, "grammar.y")
    src = re.sub(r"/\*.*?\*/", "", src, flags=re.S)
    parts = src.split("%%")
    if len(parts) < 2:
        raise Unrecognised("grammar.y sections")
    tokens = re.findall(r"%token (\w+)", parts[0])
    if sorted(tokens) != sorted(GSYM):
        raise Unrecognised("grammar.y tokens: %s" % tokens)
    prods = []
    helper = {}
    for m in re.finditer(r"(\w+)\s*:(.*?)(?=;|\n\w+\s*:|\Z)", parts[1], flags=re.S):
        lhs = m.group(1)
        alts = []
        for alt in m.group(2).split("|"):
            alts.append([sy for sy in alt.split() if sy != "%empty"])
        if lhs == "let_annotation":
            helper[lhs] = alts
        else:
            if _camel(lhs) not in NT:
                raise Unrecognised("grammar.y nonterminal %s" % lhs)
            prods.append((NT[_camel(lhs)], alts))
    if list(helper) != ["let_annotation"]:
        raise Unrecognised("grammar.y helper nonterminals %s" % list(helper))
    out_prods = []
    for lhs, alts in prods:
        for alt in alts:
            expansions = [[]]
            for sy in alt:
                if sy in helper:
                    expansions = [e + h for e in expansions for h in helper[sy]]
                else:
                    expansions = [e + [sy] for e in expansions]
            for e in expansions:
                rhs = []
                for sy in e:
                    if sy in GSYM:
                        rhs.append(GSYM[sy])
                    elif _camel(sy) in NT:
                        rhs.append("GN %s" % NT[_camel(sy)])
                    else:
                        raise Unrecognised("grammar.y symbol %s" % sy)
                out_prods.append("(%s, [%s])" % (lhs, "; ".join(rhs)))
    if sorted(set(p[0] for p in prods)) != sorted(NT.values()):
        raise Unrecognised("grammar.y does not define every nonterminal")
    out = ["(* GENERATED by tools/extract_tables.py from /repo/grammar.y (let_annotation expanded). Do not edit. *)",
           "From Coq Require Import List.", "Import ListNotations.", "Require Import Gram.Model.Token Gram.Model.Grammar.", "",
           "Definition grammar : list production :=", "  [" + ";\n   ".join(out_prods) + "].", ""]
    return "\n".join(out)


FORMER = {
    "Unifier": "FHole", "Type": "FType", "Variable": "FVar", "Lambda": "FLam", "Pi": "FPi", "Application": "FApp", "Let": "FLet",
    "Integer": "FInt", "IntegerLiteral": "FLit", "Negation": "FNeg", "Sum": "FSum", "Difference": "FDiff", "Product": "FProd",
    "Quotient": "FQuot", "LessThan": "FLt", "LessThanOrEqualTo": "FLe", "EqualTo": "FEq", "GreaterThan": "FGt",
    "GreaterThanOrEqualTo": "FGe", "Boolean": "FBool", "True": "FTrue", "False": "FFalse", "If": "FIf",
}


def _variant_list(text, what):
    vs = re.findall(r"(?:Variant::)?([A-Z][A-Za-z]+)(?:\([_, ]*\))?", text)
    out = []
    for v in vs:
        if v not in FORMER:
            raise Unrecognised("%s: variant %s" % (what, v))
        out.append(FORMER[v])
    return out


def gen_value_forms(repo):
    ev = _strip_comments(_read(repo, "src/evaluator.rs"))
    m = re.search(r"pub fn is_value\(term: &Term\) -> bool \{\s*match term\.variant \{(.*?)=> true,(.*?)=> false,\s*\}\s*\}", ev, flags=re.S)
    if not m:
        raise Unrecognised("is_value")
    values = _variant_list(m.group(1), "is_value true list")
    nonvalues = _variant_list(m.group(2), "is_value false list")
    if sorted(values + nonvalues) != sorted(FORMER.values()):
        raise Unrecognised("is_value does not list every variant once")
    tm = _strip_comments(_read(repo, "src/term.rs"))
    m = re.search(r"fn group\(term: &Term\) -> String \{\s*match &term\.variant \{\s*Variant::Unifier\(subterm, _\) => \{(.*?)\}\s*\}\s*(Variant::Type.*?)=> format!\(\"\{term\}\"\),(.*?)=> format!\(\"\(\{term\}\)\"\),\s*\}\s*\}", tm, flags=re.S)
    if not m:
        raise Unrecognised("group")
    if "group(&subterm)" not in m.group(1) or 'format!("{term}")' not in m.group(1):
        raise Unrecognised("group: unifier arm")
    bare = _variant_list(m.group(2), "group bare list")
    paren = _variant_list(m.group(3), "group parenthesised list")
    if sorted(bare + paren + ["FHole"]) != sorted(FORMER.values()):
        raise Unrecognised("group does not list every variant once")
    out = ["(* GENERATED by tools/extract_tables.py from /repo/src/evaluator.rs (is_value) and /repo/src/term.rs (group). Do not edit. *)",
           "From Coq Require Import List.", "Import ListNotations.", "Require Import Gram.Model.Term.", "",
           "Definition value_formers : list former := [%s]." % "; ".join(values), "",
           "(* term formers that `group` prints without parentheses *)",
           "Definition group_bare : list former := [%s]." % "; ".join(bare), ""]
    return "\n".join(out)


GENERATORS = [("TokenTables.v", gen_token_tables), ("ValueForms.v", gen_value_forms), ("ParserSkeleton.v", gen_parser_skeleton), ("GrammarY.v", gen_grammar_v)]
