"""Translator (T) of DESIGN 2.3: regenerates coq/Gen/*.v from /repo's working tree.
Fail-closed: an unrecognised source shape aborts the extraction of that table (the previous file is
kept) and is reported; it never guesses."""
import hashlib
import os


def generate(repo, outdir):
    os.makedirs(outdir, exist_ok=True)
    msgs = []
    ok = True
    for name, fn in GENERATORS:
        try:
            text = fn(repo)
        except Unrecognised as e:
            ok = False
            msgs.append("%s: unrecognised (%s)" % (name, e))
            continue
        path = os.path.join(outdir, name)
        old = open(path).read() if os.path.exists(path) else None
        if old != text:
            with open(path, "w") as f:
                f.write(text)
            msgs.append("%s: regenerated (changed)" % name)
        else:
            msgs.append("%s: regenerated (identical)" % name)
    return ok, "; ".join(msgs) if msgs else "no generated tables yet"


class Unrecognised(Exception):
    pass


GENERATORS = []
