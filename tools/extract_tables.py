"""Translator (T) of DESIGN 2.3: regenerates coq/Gen/*.v from /repo's working tree.
Fail-closed: an unrecognised source shape aborts the extraction of that table (the previous file is
kept) and is reported; it never guesses."""
import hashlib
import os


def generate(repo, outdir):
    os.makedirs(outdir, exist_ok=True)
    msgs = []
    ok = True
    for name, fn in GENERATORS:
        try:
            text = fn(repo)
        except Unrecognised as e:
            ok = False
            msgs.append("%s: unrecognised (%s)" % (name, e))
            continue
        path = os.path.join(outdir, name)
        old = open(path).read() if os.path.exists(path) else None
        if old != text:
            with open(path, "w") as f:
                f.write(text)
            msgs.append("%s: regenerated (changed)" % name)
        else:
            msgs.append("%s: regenerated (identical)" % name)
    return ok, "; ".join(msgs) if msgs else "no generated tables yet"


class Unrecognised(Exception):
    pass


import re


def _read(repo, rel):
    with open(os.path.join(repo, rel), encoding="utf-8") as f:
        return f.read()


def _strip_comments(src):
    src = re.sub(r"/\*.*?\*/", "", src, flags=re.S)
    return re.sub(r"//[^\n]*", "", src)


KIND = {  # Rust token variant -> Coq constructor of Model/Token.v (fail-closed on anything else)
    "Asterisk": "KAsterisk", "Boolean": "KBoolean", "Colon": "KColon", "DoubleEquals": "KDoubleEquals",
    "Else": "KElse", "Equals": "KEquals", "False": "KFalse", "GreaterThan": "KGreaterThan",
    "GreaterThanOrEqualTo": "KGreaterThanOrEqualTo", "Identifier(_)": "KIdentifier", "If": "KIf",
    "Integer": "KInteger", "IntegerLiteral(_)": "KIntegerLiteral", "LeftCurly": "KLeftCurly",
    "LeftParen": "KLeftParen", "LessThan": "KLessThan", "LessThanOrEqualTo": "KLessThanOrEqualTo",
    "Minus": "KMinus", "Plus": "KPlus", "RightCurly": "KRightCurly", "RightParen": "KRightParen",
    "Slash": "KSlash", "Terminator(TerminatorType::LineBreak)": "KLineBreak",
    "Terminator(TerminatorType::Semicolon)": "KSemicolon", "Then": "KThen", "ThickArrow": "KThickArrow",
    "ThinArrow": "KThinArrow", "True": "KTrue", "Type": "KType",
}


def _kind(v):
    v = v.strip()
    if v not in KIND:
        raise Unrecognised("token variant %r" % v)
    return KIND[v]


def _arms(src):
    """Split the body of `match c {` in tokenize into (pattern, body) arms by brace matching."""
    m = re.search(r"match c \{", src)
    if not m:
        raise Unrecognised("match c {")
    i = m.end()
    arms = []
    while True:
        while src[i] in " \n\t":
            i += 1
        if src[i] == "}":
            break
        j = src.index("=>", i)
        pat = src[i:j].strip()
        k = j + 2
        while src[k] in " \n\t":
            k += 1
        if src[k] == "{":
            depth, e = 0, k
            while True:
                if src[e] == "{":
                    depth += 1
                elif src[e] == "}":
                    depth -= 1
                    if depth == 0:
                        break
                e += 1
            body = src[k:e + 1]
            i = e + 1
        elif src.startswith("match", k):
            b = src.index("{", k)
            depth, e = 0, b
            while True:
                if src[e] == "{":
                    depth += 1
                elif src[e] == "}":
                    depth -= 1
                    if depth == 0:
                        break
                e += 1
            body = src[k:e + 1]
            i = e + 1
        else:
            raise Unrecognised("arm body after %r" % pat)
        while src[i] in " \n\t,":
            i += 1
        arms.append((pat, body))
    return arms


def _table(body, what):
    """`Variant::A | Variant::B => false, Variant::C | ... => true` -> {kind: bool}"""
    res = {}
    for alts, val in re.findall(r"((?:Variant::[A-Za-z]+(?:\([A-Za-z_:]*\))?\s*\|?\s*)+)=>\s*(true|false)\b", body):
        for v in re.findall(r"Variant::([A-Za-z]+(?:\([A-Za-z_:]*\))?)", alts):
            k = _kind(v)
            if k in res:
                raise Unrecognised("%s: %s listed twice" % (what, k))
            res[k] = (val == "true")
    return res


def gen_token_tables(repo):
    tok = _strip_comments(_read(repo, "src/tokenizer.rs"))
    tkn = _strip_comments(_read(repo, "src/token.rs"))
    test = tok.find("#[cfg(test)]")
    if test > 0:
        tok = tok[:test]
    kws = dict(re.findall(r'pub const ([A-Z_]+_KEYWORD): &str = "([a-z]+)";', tkn))
    if len(kws) != 8:
        raise Unrecognised("keyword constants (%d)" % len(kws))
    arms = _arms(tok)
    symbols, pairs, seen_special = [], [], []
    word_body = None
    linebreak_body = None
    order = []
    for pat, body in arms:
        m = re.fullmatch(r"'(\\?.)'", pat)
        if m and m.group(1) == "\\n":
            linebreak_body = body
            order.append("nl")
            continue
        if m and m.group(1) == "#":
            if not re.search(r"while let Some\(&\(_, d\)\) = iter\.peek\(\) \{\s*if d == '\\n' \{\s*break;\s*\}\s*iter\.next\(\);\s*\}", body):
                raise Unrecognised("comment loop")
            order.append("hash")
            continue
        if m:
            ch = m.group(1)
            peeks = re.findall(r"Some\(&\(_, '(.)'\)\)", body)
            variants = re.findall(r"variant: Variant::([A-Za-z]+(?:\(TerminatorType::[A-Za-z]+\))?)", body)
            ends = re.findall(r"end: i \+ (\d)", body)
            if not peeks:
                if len(variants) != 1 or ends != ["1"] or "iter." in body:
                    raise Unrecognised("symbol arm %r" % ch)
                symbols.append((ord(ch), _kind(variants[0])))
                order.append("sym")
            else:
                if len(variants) != len(peeks) + 1 or ends != ["2"] * len(peeks) + ["1"] or body.count("iter.next()") != len(peeks):
                    raise Unrecognised("look-ahead arm %r" % ch)
                pairs.append((ord(ch), [(ord(p), _kind(v)) for p, v in zip(peeks, variants)], _kind(variants[-1])))
                order.append("pair")
            continue
        if pat == "_ if c.is_alphabetic() || c == '_'":
            word_body = body
            order.append("word")
            continue
        if pat == "'0'..='9'":
            if not re.search(r"if d\.is_ascii_digit\(\) \{\s*iter\.next\(\);\s*\} else \{\s*end = \*j;\s*break;", body) or \
                    "BigInt::parse_bytes(&source_contents.as_bytes()[i..end], 10).unwrap()" not in body:
                raise Unrecognised("digit arm")
            order.append("digit")
            continue
        if pat == "_ if c.is_whitespace()":
            if body.strip() != "{}":
                raise Unrecognised("whitespace arm")
            order.append("ws")
            continue
        if pat == "_":
            if "GraphemeCursor::new(i, source_contents.len(), true)" not in body or \
                    "cursor.next_boundary(source_contents, 0).unwrap().unwrap()" not in body or \
                    "SourceRange { start: i, end }" not in body:
                raise Unrecognised("error arm")
            order.append("err")
            continue
        raise Unrecognised("arm pattern %r" % pat)
    if [o for o in order if o not in ("sym", "pair")] != ["nl", "word", "digit", "ws", "hash", "err"]:
        raise Unrecognised("arm order %r" % order)
    if word_body is None or linebreak_body is None:
        raise Unrecognised("word / line break arm")
    if not re.search(r"if d\.is_alphanumeric\(\) \|\| \*d == '_' \{\s*iter\.next\(\);\s*\} else \{\s*end = \*j;\s*break;", word_body):
        raise Unrecognised("word loop")
    chain = re.findall(r"&source_contents\[i\.\.end\] == ([A-Z_]+)\s*\{\s*tokens\.push\(Token \{\s*source_range: SourceRange \{ start: i, end \},\s*variant: Variant::([A-Za-z]+),", word_body)
    if len(chain) != 8 or "variant: Variant::Identifier(&source_contents[i..end])" not in word_body:
        raise Unrecognised("keyword chain (%d)" % len(chain))
    keywords = [(kws[c], _kind(v)) for c, v in chain]
    if "!tokens.is_empty()" not in linebreak_body or "tokens.last().unwrap().variant" not in linebreak_body:
        raise Unrecognised("line break guard")
    ends = _table(linebreak_body, "first-pass table")
    # second pass
    m = re.search(r"let mut filtered_tokens = vec!\[\];(.*)Ok\(filtered_tokens\)", tok, flags=re.S)
    if not m:
        raise Unrecognised("second pass")
    second = m.group(1)
    if "if let Variant::Terminator(TerminatorType::LineBreak) = token.variant" not in second or \
            "if let Some(next_token) = tokens_iter.peek()" not in second or \
            not re.search(r"Variant::Terminator\(TerminatorType::LineBreak\) => \{\s*panic!", second):
        raise Unrecognised("second pass shape")
    starts = _table(second, "second-pass table")
    allk = sorted(set(KIND.values()))
    if sorted(ends) != allk:
        raise Unrecognised("first-pass table does not list every token kind")
    if sorted(list(starts) + ["KLineBreak"]) != allk:
        raise Unrecognised("second-pass table does not list every token kind")

    def lst(xs):
        return "[" + "; ".join(xs) + "]"
    out = ["(* GENERATED by tools/extract_tables.py from /repo/src/tokenizer.rs and /repo/src/token.rs. Do not edit. *)",
           "From Coq Require Import List NArith Bool.", "Import ListNotations.", "Require Import Gram.Model.Token.", "",
           "Definition symbol_table : list (N * tkind) :=",
           "  " + lst("(%d%%N, %s)" % p for p in symbols) + ".", "",
           "Definition pair_table : list (N * (list (N * tkind) * tkind)) :=",
           "  " + lst("(%d%%N, (%s, %s))" % (c, lst("(%d%%N, %s)" % q for q in ps), alone) for c, ps, alone in pairs) + ".", "",
           "Definition keyword_table : list (list N * tkind) :=",
           "  " + lst("(%s, %s)" % (lst("%d%%N" % ord(ch) for ch in w), k) for w, k in keywords) + ".", "",
           "(* first pass: a line break after a token of this kind becomes a terminator *)",
           "Definition ends_table : list (tkind * bool) :=",
           "  " + lst("(%s, %s)" % (k, "true" if ends[k] else "false") for k in allk) + ".", "",
           "(* second pass: a line-break terminator before a token of this kind is kept *)",
           "Definition starts_table : list (tkind * bool) :=",
           "  " + lst("(%s, %s)" % (k, "true" if starts[k] else "false") for k in allk if k != "KLineBreak") + ".", ""]
    return "\n".join(out)


GENERATORS = [("TokenTables.v", gen_token_tables)]
