#!/bin/sh
# usage: tools/seed_regression.sh            (all seeded changes, each against the check of its own property)
# For every /verif/seeded/<name>: apply the patch to /repo, run the 450 tests and the property's quick check,
# undo the patch; prints one line per seeded change: CAUGHT or MISSED.
cd /verif
for d in seeded/*/; do
  d=${d%/}
  p=$(python3 -c "import json;print(json.load(open('$d/meta.json'))['property'])")
  out=$(./tools/try_seed.sh $d $p 2>&1)
  tests=$(echo "$out" | grep -c "450 passed")
  if echo "$out" | grep -q "^VIOLATION property=$p"; then v=CAUGHT; else v=MISSED; fi
  echo "$v $d property=$p tests450=$tests $(echo "$out" | grep -m1 expected: | cut -c1-160)"
done
git -C /repo status --short
