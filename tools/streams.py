"""Python-side streams (CLI-level runs, timing, multi-launch comparisons)."""


def replay(chk, body, path):
    print("no python-side replay for", body.get("stream"))
    return 2
