"""Python-side streams: runs of /repo's own release binary (hooks off) in separate processes
(C13 determinism, C14 exit-code/stream contract) and the scaling families of C17.
Every random choice derives from VERIF_SEED through random.Random(seed)."""
import hashlib
import json
import os
import random
import re
import subprocess
import time
from concurrent.futures import ThreadPoolExecutor

ALPHABET = [b"x", b"y", b"1", b" ", b"\n", b"(", b")", b"=", b";", b"+", b"-", b">", b"#", b"{", b":", b"if", b"_",
            b"\xc3\xa9", b"\xe2\x82\xac", b"\xff", b"\xc3", b"\x00", b"$", b"\r"]


def hexs(b):
    return "x:" + b.hex()


def _run_cli(args):
    binary, sub, path, timeout = args
    env = dict(os.environ)
    env["NO_COLOR"] = "1"
    t0 = time.time()
    try:
        p = subprocess.run([binary, sub, path], stdout=subprocess.PIPE, stderr=subprocess.PIPE, timeout=timeout, env=env)
        return p.returncode, p.stdout, p.stderr, time.time() - t0
    except subprocess.TimeoutExpired:
        return "timeout", b"", b"", time.time() - t0


def _workdir(chk, name):
    d = os.path.join(chk.BUILD, "run", name)
    os.makedirs(d, exist_ok=True)
    return d


def _programs(chk, stream, tier, seed, limit):
    """source texts from the OCaml generators (pipe cases of a stream)"""
    rc, out = chk.sh([chk.DRIVER_BIN, "gen", stream, tier, str(seed), "0", "16"], timeout=600)
    res = []
    for l in out.split("\n"):
        m = re.search(r"\(pipe \w+ x:([0-9a-f]*)\)", l)
        if m:
            res.append(bytes.fromhex(m.group(1)))
        if len(res) >= limit:
            break
    return res


def contract_violation(rc, out, err):
    """C14: exit 0 with the result on stdout and nothing on stderr, or exit 1 with at least one [Error] on
    stderr and nothing on stdout."""
    if rc == 0:
        if not out.strip():
            return "exit 0 with empty standard output"
        if err.strip():
            return "exit 0 with diagnostics on standard error"
        return None
    if rc == 1:
        if out.strip():
            return "exit 1 with output on standard output"
        if b"[Error]" not in err:
            # recorded finding D19: an index left ill scoped by a re-homed hole reaches the normaliser's context lookup
            if re.search(rb"panicked at src/normalizer\.rs:\d+:\d+:\s*\n?(attempt to subtract with overflow|index out of bounds)", err):
                return "exit 1 without an [Error] diagnostic: panic in the normaliser's context lookup sig=D19-local-hole-rehomed-by-shift"
            return "exit 1 without an [Error] diagnostic"
        return None
    if rc == "timeout":
        return "timeout"
    return "abnormal exit status %r (stderr: %s)" % (rc, err[-200:].decode("utf-8", "replace"))


# ------------------------------------------------------------------------------------------- C14
def cli_contract(chk, pid, tier, seed):
    ok, out, binary = chk.build_repo_cli()
    if not ok:
        return {"errors": ["/repo does not build: " + out[-500:]]}
    rnd = random.Random(seed * 1000003 + 14)
    wd = _workdir(chk, "c14")
    inputs = []
    # all byte strings of length <= 2 (quick) / 3 (thorough) over the alphabet (invalid UTF-8 included)
    maxlen = 2 if tier == "quick" else 3

    def rec(prefix, k):
        inputs.append(prefix)
        if k < maxlen:
            for a in ALPHABET:
                rec(prefix + a, k + 1)
    rec(b"", 0)
    # random byte strings
    for _ in range(600 if tier == "quick" else 6000):
        n = rnd.randint(1, 60)
        if rnd.random() < 0.5:
            inputs.append(bytes(rnd.randrange(256) for _ in range(n)))
        else:
            inputs.append(b"".join(rnd.choice(ALPHABET) for _ in range(n)))
    # token soup and grammar sentences with single-token edits
    words = [b"x", b"y", b"1", b"(", b")", b"=", b";", b"\n", b"+", b"-", b"*", b"/", b"=>", b"->", b":", b"{", b"}", b"if", b"then",
             b"else", b"true", b"false", b"int", b"bool", b"type", b"<", b"<=", b"==", b">", b">=", b"_"]
    for _ in range(600 if tier == "quick" else 6000):
        inputs.append(b" ".join(rnd.choice(words) for _ in range(rnd.randint(1, 25))))
    progs = _programs(chk, "C02", tier, seed, 400 if tier == "quick" else 3000)
    for p in progs:
        inputs.append(p)
        toks = p.split(b" ")
        if len(toks) > 1:
            i = rnd.randrange(len(toks))
            k = rnd.randrange(3)
            if k == 0:
                del toks[i]
            elif k == 1:
                toks[i] = rnd.choice(words)
            else:
                toks.insert(i, rnd.choice(words))
            inputs.append(b" ".join(toks))
    # deep but bounded nesting (stack budget: 16 MiB, release build)
    for n in (64, 512, 2048):
        inputs.append(b"(" * n + b"1" + b")" * n)
        inputs.append(b"(" * n + b"1")
        inputs.append(b"1" + b" + 1" * (2 * n))
    # arithmetic corner cases in TYPE positions: the checker normalises them (division by zero must stay a stuck term
    # there, as it is at run time; big and negative operands)
    for e in ("1 / 0", "(1 + 0) / 0", "0 / 0", "7 / (3 - 3)", "-7 / 2", "(0 - 7) / 2", "18446744073709551616 / 3",
              "1 - 2", "2 * (0 - 3)", "5 / (0 - 2)"):
        inputs.append(("x : (if %s == 0 then int else bool) = 5; x" % e).encode())
        inputs.append(("((x : %s) => x) 1" % e).encode())
        inputs.append(("p : ((q : int -> type) -> q (%s) -> q (%s + 0)) = q => h => h; p" % (e, e)).encode())
        inputs.append(("v = (n : int) => if n == 0 then int else bool; y : v (%s) = 3; y" % e).encode())
    # recorded finding D19 (panic in normalize_weak_head: context index out of range)
    inputs.append(b"(f : type) => (z : (a : type) -> _) => ((w : (a : type) -> f) => w) z + z int")
    inputs = list(dict.fromkeys(inputs))
    jobs = []
    for i, b in enumerate(inputs):
        path = os.path.join(wd, "in%06d.g" % i)
        with open(path, "wb") as f:
            f.write(b)
        jobs.append((binary, "check" if i % 3 else "run", path, 20))
    with ThreadPoolExecutor(max_workers=chk.NCPU) as ex:
        results = list(ex.map(_run_cli, jobs))
    fails, kinds = [], {}
    nontrivial = set()
    for (b, (rc, out, err, dt)), job in zip(zip(inputs, results), jobs):
        key = "exit%s" % rc
        kinds[key] = kinds.get(key, 0) + 1
        if rc == 1:
            nontrivial.add(b)
        v = contract_violation(rc, out, err)
        if v == "timeout":
            kinds["inconclusive-timeout"] = kinds.get("inconclusive-timeout", 0) + 1
            continue
        if v:
            fails.append({"kind": "property", "stream": "py:cli_contract", "case": "(cli %s %s)" % (job[1], hexs(b)),
                          "result": "(exit %s)" % rc, "detail": v, "noshrink": True})
    for p in [j[2] for j in jobs]:
        try:
            os.remove(p)
        except OSError:
            pass
    return {"fails": fails, "stats": {"total": len(inputs), "distinct_nontrivial": len(nontrivial), "cli_exit_kinds": kinds},
            "samples": ["(cli check %s)" % hexs(inputs[5 % len(inputs)]), "(cli run %s)" % hexs(inputs[-1][:60])],
            "coverage": {"cli_runs": len(inputs)}}


# ------------------------------------------------------------------------------------------- C13
def hash_iteration_sites(repo):
    """Translator-style scan: every iteration over a HashSet/HashMap in /repo/src (non-test code).
    A use of a name refers to the nearest preceding completed `let` of that name (Rust shadowing) or,
    failing that, to a parameter of that name."""
    sites = []
    for fn in sorted(os.listdir(os.path.join(repo, "src"))):
        if not fn.endswith(".rs"):
            continue
        src = open(os.path.join(repo, "src", fn), encoding="utf-8").read()
        cut = src.find("#[cfg(test)]\nmod tests")
        if cut > 0:
            src = src[:cut]
        src = re.sub(r"//[^\n]*", "", src)
        # bindings: (end position of the statement, name, is_hash)
        binds = []
        for m in re.finditer(r"let (?:mut )?(\w+)(\s*:\s*[^=;]+)?\s*=", src):
            end = src.find(";", m.end())
            init = src[m.end():end if end > 0 else m.end() + 200]
            ann = m.group(2) or ""
            is_hash = bool(re.search(r"Hash(Set|Map)", ann)) or bool(re.match(r"\s*Hash(Set|Map)::new\(\)", init))
            binds.append((end if end > 0 else m.end(), m.group(1), is_hash))
        for m in re.finditer(r"(\w+): &(?:mut )?(?:'\w+ )?(?:mut )?Hash(?:Set|Map)<", src):
            binds.append((m.end(), m.group(1), True))
        for m in re.finditer(r"(\w+): &(?:mut )?\[", src):
            binds.append((m.end(), m.group(1), False))
        names = sorted(set(b[1] for b in binds if b[2]))
        for nme in names:
            for m in re.finditer(r"for [^\n]* in &?(?:mut )?%s\b|\b%s\s*\.\s*(iter|into_iter|keys|values|drain|iter_mut)\(" % (nme, nme), src):
                prior = [b for b in binds if b[1] == nme and b[0] <= m.start()]
                if not prior or not max(prior)[2]:
                    continue
                line = src.count("\n", 0, m.start()) + 1
                ctx = src[m.start():m.start() + 160]
                sorted_after = bool(re.search(r"\.sort(_unstable)?\(\)", src[m.start():m.start() + 400]))
                sites.append({"file": "src/" + fn, "variable": nme, "line": line, "sorted": sorted_after,
                              "text": " ".join(ctx.split())[:100]})
    return sites


MODELLED_HASH_SITES = [("src/parser.rs", "variables", True)]   # check_definition: collected into a Vec and sorted (repair D5)


def cli_determinism(chk, pid, tier, seed):
    ok, out, binary = chk.build_repo_cli()
    if not ok:
        return {"errors": ["/repo does not build: " + out[-500:]]}
    errors = []
    sites = hash_iteration_sites(chk.REPO)
    got = sorted((s["file"], s["variable"], s["sorted"]) for s in sites)
    if got != sorted(MODELLED_HASH_SITES):
        errors.append("iteration_sites != modelled_sites: hash-ordered iteration sites in /repo/src are now %s" % json.dumps(sites))
    rnd = random.Random(seed * 1000003 + 13)
    wd = _workdir(chk, "c13")
    files = []
    # rejected programs with several diagnostics from one stage, accepted programs, multi-definition-order faults
    multi = [
        b"x = y + z + w; y = 1 + 1; z = 1 + 1; w = 1 + 1; x",
        b"a = b + c + d + e + f; b = 1 + 1; c = 1 + 1; d = 1 + 1; e = 1 + 1; f = 1 + 1; a",
        b"p = q + r; q = r + 1; r = 1 + 1; s = p + q + r; p",
        b"x = u + v + w + y + z; u = 0 + 0; v = 0 + 0; w = 0 + 0; y = 0 + 0; z = 0 + 0; k = x + u + v; k",
        b"(true + 1) + (false + 2) + (type + 3)", b"a + b + c + d", b"x => x => x => y", b"( ( (", b"1 $ 2 @ 3 ~ 4",
        # several diagnostics of ONE kind from ONE construct (any of them could be collected through a hash container)
        b"alpha = 1; beta = 2; gamma = 3; (alpha = 4; beta = 5; gamma = 6; alpha)",
        b"a = 1; b = 2; c = 3; d = 4; (d = 0; c = 0; b = 0; a = 0; a + b + c + d)",
        b"p => q => r => (p = 1; q = 2; r = 3; p)",
        b"f = (x : int) => (y : int) => (z : int) => (x = 1; y = 2; z = 3; x); f",
        b"u + v + w + u + v + w",
        b"(x : a) -> (y : b) -> (z : c) -> d",
        b"m = n + o + p + q; n = 1 + 1; o = 2 + 2; p = 3 + 3; q = 4 + 4; r = m + n + o + p + q; r",
        b"1 + true + false + type + int + bool",
        b"if 1 then (if 2 then (if 3 then 4 else 5) else 6) else 7",
        b"(1 2) (3 4) (5 6) (7 8)",
        # ONE diagnostic whose text could be completed from a hash container: an unbound name with several
        # equally near candidates in scope (equal up to case, one character apart, common prefix)
        b"fooBar = 1; foobar = 2; FOOBAR = 3; Foobar = 4; FooBar",
        b"(fooBar : int) => (foobar : int) => (fOObar : int) => FooBar + 1",
        b"count1 = 1; count2 = 2; count3 = 3; count4 = 4; count5 = 5; count",
        b"xa = 1; xb = 2; xc = 3; xd = 4; xe = 5; xf = 6; xg = 7; xz + xy",
        b"value = 1; Value = 2; VALUE = 3; vAlue = 4; valuE + vaLue + valUe",
        b"f = (abc : int) => (abd : int) => (abe : int) => (abf : int) => abg; f",
    ]
    files.extend(multi)
    progs = _programs(chk, "C01", tier, seed, 120 if tier == "quick" else 600)
    files.extend(progs)
    for p in progs[:60 if tier == "quick" else 300]:
        toks = p.split(b" ")
        for _ in range(3):
            if toks:
                toks[rnd.randrange(len(toks))] = rnd.choice([b"zz", b"true", b"+", b"(", b"qq", b"1"])
        files.append(b" ".join(toks))
    files = list(dict.fromkeys(files))
    launches = 12 if tier == "quick" else 60
    jobs = []
    for i, b in enumerate(files):
        path = os.path.join(wd, "in%05d.g" % i)
        with open(path, "wb") as f:
            f.write(b)
        for k in range(launches):
            jobs.append((binary, "check" if k % 2 == 0 else "run", path, 20))
    with ThreadPoolExecutor(max_workers=chk.NCPU) as ex:
        results = list(ex.map(_run_cli, jobs))
    fails = []
    nontrivial = set()
    k = 0
    for i, b in enumerate(files):
        seen = {}
        for j in range(launches):
            rc, out, err, dt = results[k]
            sub = jobs[k][1]
            k += 1
            if rc == "timeout":
                continue
            seen.setdefault(sub, set()).add((rc, out, err))
            if err.count(b"[Error]") >= 2:
                nontrivial.add(b)
        for sub, outs in seen.items():
            if len(outs) > 1:
                a, c = sorted(outs, key=repr)[:2]
                fails.append({"kind": "property", "stream": "py:cli_determinism", "case": "(cli %s %s)" % (sub, hexs(b)),
                              "result": "(outputs %d)" % len(outs), "noshrink": True,
                              "detail": "two launches differ: %r vs %r" % (a[2][-160:], c[2][-160:])})
    for j in jobs[::launches]:
        try:
            os.remove(j[2])
        except OSError:
            pass
    return {"fails": fails, "errors": errors,
            "stats": {"total": len(jobs), "distinct_nontrivial": len(nontrivial), "files": {"n": len(files)}},
            "samples": ["(cli check %s) x %d launches" % (hexs(files[0]), launches)],
            "coverage": {"files": len(files), "launches_per_file": launches, "hash_iteration_sites": sites}}


# ------------------------------------------------------------------------------------------- C17
def families(n):
    """(name, source) input families parameterised by n; well-formed and truncated members."""
    f = []
    f.append(("nested-parens", "(" * n + "1" + ")" * n))
    f.append(("nested-parens-truncated", "(" * n + "1" + ")" * (n // 2)))
    f.append(("nested-parens-open", "(" * n))
    f.append(("sum-chain", "1" + " + 1" * n))
    f.append(("sum-chain-truncated", "1" + " + 1" * n + " +"))
    f.append(("mixed-chain", "1" + " * 2 - 3 / 4 + 5" * (n // 4)))
    f.append(("application-chain", "f => f" + " f" * n))
    f.append(("comparison-nest", "(" * (n // 2) + "1" + " == 1)" * (n // 2)))
    f.append(("definitions", "".join("x%d = %d; " % (i, i) for i in range(n)) + "x0"))
    f.append(("definitions-truncated", "".join("x%d = %d; " % (i, i) for i in range(n)) + "x0 ="))
    f.append(("definitions-linebreaks", "".join("x%d : int = %d\n" % (i, i) for i in range(n)) + "x0"))
    f.append(("nested-if", "if true then " * (n // 3) + "1" + " else 2" * (n // 3)))
    f.append(("nested-if-truncated", "if true then " * (n // 3) + "1" + " else 2" * (n // 6)))
    f.append(("nested-if-missing-then", "if true " * (n // 2) + "1"))
    f.append(("lambda-chain", "".join("(a%d : int) => " % i for i in range(n // 4)) + "1"))
    f.append(("arrow-chain", "int" + " -> int" * n))
    f.append(("curly-soup", "{ x " * (n // 2)))
    f.append(("paren-operator-soup", "( 1 + " * (n // 3)))
    f.append(("let-in-parens", "(x = " * (n // 3) + "1" + "; x)" * (n // 3)))
    f.append(("unclosed-lets", "x = ( " * (n // 3)))
    f.append(("colon-chain", "x : " * (n // 2)))
    # chains nested inside operands of chains of the same kind (the re-association passes recurse into operands):
    # a parenthesised chain as a middle / last / first operand, n // 8 levels deep
    d = n // 8
    def nest(open_, close_, leaf):
        s = leaf
        for _ in range(d):
            s = open_ + s + close_
        return s
    f.append(("nested-application-middle", nest("f (", ") 2", "f 1 2")))
    f.append(("nested-application-last", nest("f 2 (", ")", "f 1 2")))
    f.append(("nested-application-head", nest("(", ") 2 3", "f 1 2")))
    f.append(("nested-difference-middle", nest("1 - (", ") - 2", "1 - 2 - 3")))
    f.append(("nested-difference-last", nest("1 - 2 - (", ")", "1 - 2 - 3")))
    f.append(("nested-quotient-middle", nest("1 * (", ") / 2", "1 / 2 * 3")))
    f.append(("nested-mixed-middle", nest("f (1 - (2 * (", ")) - 3) 4", "f 1 2")))
    # a group of functions sharing helpers in a DAG, reached from one computed definition (the definition-order check walks
    # the group: the number of PATHS is exponential, the number of definitions linear), and the same nested in a function
    def dag(k):
        ls = ["f0 : (int -> int) = x => x + 1", "f1 : (int -> int) = x => f0 x"]
        for i in range(2, k):
            ls.append("f%d : (int -> int) = x => f%d (f%d x)" % (i, i - 1, i - 2))
        ls.append("r : int = f%d 0" % (k - 1))
        ls.append("r")
        return ls
    f.append(("definitions-dag", "\n".join(dag(max(3, d)))))
    f.append(("definitions-dag-nested", "g = (u : int) => (" + "; ".join(dag(max(3, d))) + "); g 1"))
    return f


def parse_scaling(chk, pid, tier, seed):
    sizes = [64, 128, 256, 512, 1024] + ([2048] if tier == "thorough" else [])
    lines, meta = [], []
    for n in sizes:
        for name, src in families(n):
            lines.append("(timeparse %s %d)" % (hexs(src.encode()), 3))
            meta.append((name, n))
    res = chk.run_harness_lines(lines, case_ms=60000)
    fails = []
    by_family = {}
    worst_ratio = {}
    for (name, n), l in zip(meta, res):
        r = l.split("\t", 1)[1]
        m = re.match(r"\(timed (\w+) (\d+) (\d+) \(hooks (\d+) (\d+) (\d+) (\d+)(?: \d+)*\)\)", r)
        if not m:
            if "(timeout)" in r or "(abort)" in r:
                fails.append({"kind": "property", "stream": "py:parse_scaling", "case": l.split("\t")[0][:300], "result": r,
                              "detail": "family %s n=%d: tokenize+parse did not finish (%s)" % (name, n, r), "noshrink": True})
            continue
        verdict, ntok, us, misses, scans = m.group(1), int(m.group(2)), int(m.group(3)), int(m.group(6)), int(m.group(7))
        by_family.setdefault(name, []).append((n, ntok, us, misses, scans))
        # proved bounds of the model: bodies <= 36 * (tokens + 1); scan steps <= bodies * (tokens + 1)
        if misses > 36 * (ntok + 1):
            fails.append({"kind": "property", "stream": "py:parse_scaling", "case": l.split("\t")[0][:300], "result": r, "noshrink": True,
                          "detail": "family %s n=%d: %d memo misses exceed 36*(tokens+1)=%d (packrat bound)" % (name, n, misses, 36 * (ntok + 1))})
        # proved relation (Proofs/ScanProofs.v stage1_scans_le_misses): scan steps <= 2 * (tokens + 1) * bodies
        if scans > 2 * (ntok + 1) * misses:
            fails.append({"kind": "property", "stream": "py:parse_scaling", "case": l.split("\t")[0][:300], "result": r, "noshrink": True,
                          "detail": "family %s n=%d: %d recovery scan steps exceed 2*(tokens+1)*misses=%d (proved relation of the model)" % (name, n, scans, 2 * (ntok + 1) * misses)})
        if scans > 2 * (ntok + 1) * (ntok + 1):
            fails.append({"kind": "property", "stream": "py:parse_scaling", "case": l.split("\t")[0][:300], "result": r, "noshrink": True,
                          "detail": "family %s n=%d: %d recovery scan steps exceed 2*(tokens+1)^2" % (name, n, scans)})
    # a doubling that looks too expensive is measured again (3 more rounds of 5 repeats, minimum kept):
    # scheduling noise does not survive the minimum, a real blow-up does
    def too_slow(u1, u2):
        return u2 > 6 * u1 + 3000
    suspects = []
    for name, pts in by_family.items():
        pts.sort()
        for (n1, _, u1, _, _), (n2, _, u2, _, _) in zip(pts, pts[1:]):
            if too_slow(u1, u2):
                suspects.append((name, n1)); suspects.append((name, n2))
    remeasured = 0
    if suspects:
        srcs = {}
        for n in sizes:
            for name, src in families(n):
                if (name, n) in suspects:
                    srcs[(name, n)] = src
        keys = sorted(srcs)
        for _ in range(3):
            res2 = chk.run_harness_lines(["(timeparse %s %d)" % (hexs(srcs[k].encode()), 5) for k in keys], case_ms=60000)
            for k, l in zip(keys, res2):
                m = re.match(r"\(timed (\w+) (\d+) (\d+) ", l.split("\t", 1)[1])
                if m:
                    remeasured += 1
                    by_family[k[0]] = [(n, t, min(u, int(m.group(3))) if n == k[1] else u, mi, sc) for (n, t, u, mi, sc) in by_family[k[0]]]
    growth = {}
    for name, pts in by_family.items():
        pts.sort()
        for (n1, t1, u1, _, _), (n2, t2, u2, _, _) in zip(pts, pts[1:]):
            ratio = u2 / max(u1, 1)
            growth[name] = max(growth.get(name, 0), round(ratio, 2))
            # polynomial of low degree: doubling the input may not multiply the time by more than 6 (+ 3 ms slack)
            if u2 > 6 * u1 + 3000:
                fails.append({"kind": "property", "stream": "py:parse_scaling", "case": "(family %s %d)" % (name, n2), "noshrink": True,
                              "result": "(us %d -> %d)" % (u1, u2),
                              "detail": "family %s: time grows %.1fx from n=%d to n=%d (%d us -> %d us)" % (name, ratio, n1, n2, u1, u2)})
    return {"fails": fails, "stats": {"total": len(lines), "distinct_nontrivial": len(lines), "families": {k: len(v) for k, v in by_family.items()}},
            "samples": [lines[0][:120], "(family definitions n=1024)"],
            "coverage": {"max_growth_per_doubling": growth, "sizes": sizes, "remeasured_after_a_slow_doubling": remeasured,
                         "largest": {k: {"tokens": v[-1][1], "us": v[-1][2], "misses": v[-1][3], "scans": v[-1][4]} for k, v in by_family.items()}}}


def replay(chk, body, path):
    case = body.get("case", "")
    m = re.match(r"\(cli (\w+) x:([0-9a-f]*)\)", case)
    if m:
        ok, out, binary = chk.build_repo_cli()
        wd = _workdir(chk, "replay")
        p = os.path.join(wd, "replay.g")
        with open(p, "wb") as f:
            f.write(bytes.fromhex(m.group(2)))
        outs = set()
        for _ in range(30 if body.get("stream") == "py:cli_determinism" else 1):
            rc, o, e, _ = _run_cli((binary, m.group(1), p, 20))
            outs.add((rc, o, e))
        for rc, o, e in list(outs)[:2]:
            print("exit=%s\nstdout=%r\nstderr=%s" % (rc, o[-300:], e.decode("utf-8", "replace")[-600:]))
        bad = len(outs) > 1 if body.get("stream") == "py:cli_determinism" else any(contract_violation(rc, o, e) for rc, o, e in outs)
        if bad:
            print("VIOLATION property=%s replay=%s" % (body["property"], path))
            return 1
        print("passes now")
        return 0
    print(json.dumps(body, indent=1))
    print("re-run: ./check run %s --tier %s" % (body["property"], body.get("tier", "quick")))
    return 0
