#!/bin/sh
# usage: tools/harmless_test.sh
# False-alarm test: applies each group of five behaviour-preserving refactorings (harmless/<g>/*.diff, written and verified
# byte-for-byte by independent sub-agents) to /repo, runs the 450 tests and all 19 quick checks, and undoes the patches.
# Expected: no VIOLATION line.
cd /verif
for g in 1 2 3 4; do
  echo "== group $g"
  for k in 1 2 3 4 5; do git -C /repo apply /verif/harmless/$g/$k.diff || echo "apply failed $g/$k"; done
  (cd /repo && cargo test --workspace --no-fail-fast --offline 2>&1 | grep "test result")
  VERIF_SEED=${VERIF_SEED:-1} ./tools/runall.sh 2>&1 | grep "VIOLATION\|quick\]"
  git -C /repo checkout -- .
done
