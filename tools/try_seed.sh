#!/bin/sh
# usage: tools/try_seed.sh <seed-dir> <property-id> [more property ids...]
# Applies <seed-dir>/patch.diff to /repo, runs the 450 tests and the given quick checks, and undoes the patch.
d=$1; shift
cd /verif
git -C /repo apply "$(realpath $d)/patch.diff" || exit 2
(cd /repo && cargo test --workspace --no-fail-fast --offline 2>&1 | grep "test result")
for p in "$@"; do
  rm -rf replays.seed; mv replays replays.keep 2>/dev/null
  ./check run $p 2>&1 | grep -v "^KNOWN-FINDING" | tail -3
  for f in replays/*.json; do [ -f "$f" ] && python3 -c "
import json,sys
b=json.load(open('$f')); print('  replay:', b.get('case','')[:160]); print('  expected:', str(b.get('expected', b.get('broken','')))[:220])"; done
  rm -rf replays; mv replays.keep replays 2>/dev/null
done
git -C /repo checkout -- .
