#!/usr/bin/env python3
"""Writes /verif/MANIFEST.json from tools/props.py (claimed checks) and properties.jsonl."""
import json
import os
import sys
ROOT = os.path.dirname(os.path.dirname(os.path.abspath(__file__)))
sys.path.insert(0, os.path.join(ROOT, "tools"))
from props import PROPS, MANIFEST_TEXT, NOT_APPLICABLE  # noqa: E402

ids = [json.loads(l)["id"] for l in open(os.path.join(ROOT, "properties.jsonl"))]
checks = []
for pid in ids:
    if pid not in PROPS:
        continue
    t = MANIFEST_TEXT[pid]
    checks.append({
        "property_id": pid,
        "quick_cmd": "./check run %s --tier quick" % pid,
        "thorough_cmd": "./check run %s --tier thorough" % pid,
        "evidence_file": "evidence/%s.json" % pid,
        "replay_cmd_template": "./check replay {path}",
        "engine": "coq-model+correspondence",
        "level_claimed": {"category": PROPS[pid]["level"], "text": t["text"], "design_ref": t["design_ref"]},
        "level_note": t["note"],
        "technique": t["technique"],
    })
na = [{"property_id": pid, "reason": NOT_APPLICABLE.get(pid, "check not built yet in this development (in progress); no claim is made")}
      for pid in ids if pid not in PROPS]
m = {
    "version": 1,
    "setup_cmd": "./check setup",
    "hooks": {
        "guard": "cargo feature `verif`",
        "enable": "the harness crate (harness/) compiles /repo/src/*.rs by #[path] with its own feature `verif` on; CLI-level streams build /repo itself with the feature off",
        "baseline_off_cmd": "cd /repo && cargo test --workspace --no-fail-fast --offline",
        "source_commits": json.load(open(os.path.join(ROOT, "tools", "hook_commits.json"))),
        "add_only": True,
    },
    "engines": [{"name": "coq-model+correspondence", "path": "check",
                 "serves_properties": [c["property_id"] for c in checks],
                 "kind_free_text": "Coq 8.16 models and theorems (coq/), extracted to OCaml (ocaml/driver) and run against the Rust implementation through harness/ on generated and enumerated cases"}],
    "checks": checks,
    "not_applicable": na,
    "notes": "See DESIGN.md. Known findings: KNOWN_FINDINGS.json.",
}
json.dump(m, open(os.path.join(ROOT, "MANIFEST.json"), "w"), indent=1)
print("claimed:", [c["property_id"] for c in checks])
