// Conversion between exchange-format S-expressions and gram's `Term`.
use crate::de_bruijn::unsigned_shift;
use crate::sx::{Sx, a, l, n};
use crate::term::{Term, Variant};
use num_bigint::BigInt;
use std::cell::RefCell;
use std::collections::HashMap;
use std::rc::Rc;

thread_local! {
    static NAMES: RefCell<HashMap<String, &'static str>> = RefCell::new(HashMap::new());
}

pub fn intern(s: &str) -> &'static str {
    NAMES.with(|m| {
        let mut m = m.borrow_mut();
        if let Some(x) = m.get(s) {
            x
        } else {
            let x: &'static str = Box::leak(s.to_owned().into_boxed_str());
            m.insert(s.to_owned(), x);
            x
        }
    })
}

pub type Cell<'a> = Rc<RefCell<Option<Term<'a>>>>;

// Importer: hole ids map to shared cells.
#[derive(Default)]
pub struct Importer {
    pub cells: HashMap<usize, Cell<'static>>,
}

fn mk(v: Variant<'static>) -> Term<'static> {
    Term {
        source_range: None,
        variant: v,
    }
}

const BINOPS: [&str; 9] = ["sum", "diff", "prod", "quot", "lt", "le", "eq", "gt", "ge"];

impl Importer {
    pub fn cell(&mut self, id: usize) -> Cell<'static> {
        self.cells
            .entry(id)
            .or_insert_with(|| Rc::new(RefCell::new(None)))
            .clone()
    }

    pub fn term(&mut self, s: &Sx) -> Term<'static> {
        match s {
            Sx::A(x) => mk(match x.as_str() {
                "type" => Variant::Type,
                "int" => Variant::Integer,
                "bool" => Variant::Boolean,
                "true" => Variant::True,
                "false" => Variant::False,
                _ => panic!("harness: bad term atom {x}"),
            }),
            Sx::L(v) => {
                let h = v[0].atom();
                let rc = |me: &mut Self, i: usize| Rc::new(me.term(&v[i]));
                mk(match h {
                    "hole" => {
                        let c = self.cell(v[1].usize());
                        Variant::Unifier(c, v[2].usize())
                    }
                    "lit" => Variant::IntegerLiteral(
                        BigInt::parse_bytes(v[1].atom().as_bytes(), 10).expect("harness: lit"),
                    ),
                    "var" => Variant::Variable(intern(v[1].atom()), v[2].usize()),
                    "lam" => Variant::Lambda(
                        intern(v[1].atom()),
                        v[2].atom() == "1",
                        rc(self, 3),
                        rc(self, 4),
                    ),
                    "pi" => Variant::Pi(
                        intern(v[1].atom()),
                        v[2].atom() == "1",
                        rc(self, 3),
                        rc(self, 4),
                    ),
                    "app" => Variant::Application(rc(self, 1), rc(self, 2)),
                    "let" => {
                        let mut defs = vec![];
                        for d in v[1].list() {
                            let d = d.list();
                            defs.push((
                                intern(d[0].atom()),
                                Rc::new(self.term(&d[1])),
                                Rc::new(self.term(&d[2])),
                            ));
                        }
                        Variant::Let(defs, rc(self, 2))
                    }
                    "neg" => Variant::Negation(rc(self, 1)),
                    "sum" => Variant::Sum(rc(self, 1), rc(self, 2)),
                    "diff" => Variant::Difference(rc(self, 1), rc(self, 2)),
                    "prod" => Variant::Product(rc(self, 1), rc(self, 2)),
                    "quot" => Variant::Quotient(rc(self, 1), rc(self, 2)),
                    "lt" => Variant::LessThan(rc(self, 1), rc(self, 2)),
                    "le" => Variant::LessThanOrEqualTo(rc(self, 1), rc(self, 2)),
                    "eq" => Variant::EqualTo(rc(self, 1), rc(self, 2)),
                    "gt" => Variant::GreaterThan(rc(self, 1), rc(self, 2)),
                    "ge" => Variant::GreaterThanOrEqualTo(rc(self, 1), rc(self, 2)),
                    "if" => Variant::If(rc(self, 1), rc(self, 2), rc(self, 3)),
                    _ => panic!("harness: bad term head {h}"),
                })
            }
        }
    }

    // `(store (id term|none) ...)`: fill cells.
    pub fn store(&mut self, s: &Sx) {
        for e in &s.list()[1..] {
            let e = e.list();
            let id = e[0].usize();
            let c = self.cell(id);
            if let Sx::A(x) = &e[1] {
                if x == "none" {
                    continue;
                }
            }
            let t = self.term(&e[1]);
            *c.borrow_mut() = Some(t);
        }
    }
}

// Exporter: holes numbered by pointer identity in first-visit order (ids of imported cells are kept).
pub struct Exporter<'a> {
    pub ids: HashMap<*const RefCell<Option<Term<'a>>>, usize>,
    pub cells: Vec<(usize, Cell<'a>)>,
    pub next: usize,
    pub ranges: bool,
}

impl<'a> Default for Exporter<'a> {
    fn default() -> Self {
        Exporter { ids: HashMap::new(), cells: vec![], next: 0, ranges: false }
    }
}

impl Exporter<'static> {
    pub fn from_importer(imp: &Importer) -> Self {
        let mut e = Exporter::default();
        let mut ids: Vec<_> = imp.cells.iter().collect();
        ids.sort_by_key(|(k, _)| **k);
        for (id, c) in ids {
            e.ids.insert(Rc::as_ptr(c), *id);
            e.cells.push((*id, c.clone()));
            e.next = e.next.max(*id + 1);
        }
        e
    }
}

impl<'a> Exporter<'a> {
    pub fn id_of(&mut self, c: &Cell<'a>) -> usize {
        let p = Rc::as_ptr(c);
        if let Some(i) = self.ids.get(&p) {
            *i
        } else {
            let i = self.next;
            self.next += 1;
            self.ids.insert(p, i);
            self.cells.push((i, c.clone()));
            i
        }
    }

    // zonk = true: solved holes are replaced by their (shifted) solution.
    pub fn term(&mut self, t: &Term<'a>, zonk: bool) -> Sx {
        let body = self.term0(t, zonk);
        if self.ranges {
            if let Some(r) = t.source_range {
                return l(vec![a("@"), n(r.start), n(r.end), body]);
            }
        }
        body
    }

    fn term0(&mut self, t: &Term<'a>, zonk: bool) -> Sx {
        let b = |me: &mut Self, h: &str, x: &Term<'a>, y: &Term<'a>| {
            l(vec![a(h), me.term(x, zonk), me.term(y, zonk)])
        };
        match &t.variant {
            Variant::Unifier(c, s) => {
                let sol = { c.borrow().clone() };
                if let (true, Some(sol)) = (zonk, sol) {
                    let shifted = unsigned_shift(&sol, 0, *s);
                    self.term0(&shifted, zonk)
                } else {
                    let id = self.id_of(c);
                    l(vec![a("hole"), n(id), n(*s)])
                }
            }
            Variant::Type => a("type"),
            Variant::Integer => a("int"),
            Variant::Boolean => a("bool"),
            Variant::True => a("true"),
            Variant::False => a("false"),
            Variant::IntegerLiteral(z) => l(vec![a("lit"), a(&z.to_string())]),
            Variant::Variable(x, i) => l(vec![a("var"), a(x), n(*i)]),
            Variant::Lambda(x, im, d, bd) => l(vec![
                a("lam"),
                a(x),
                a(if *im { "1" } else { "0" }),
                self.term(d, zonk),
                self.term(bd, zonk),
            ]),
            Variant::Pi(x, im, d, bd) => l(vec![
                a("pi"),
                a(x),
                a(if *im { "1" } else { "0" }),
                self.term(d, zonk),
                self.term(bd, zonk),
            ]),
            Variant::Application(f, x) => b(self, "app", f, x),
            Variant::Let(ds, bd) => {
                let mut v = vec![];
                for (x, an, df) in ds {
                    v.push(l(vec![a(x), self.term(an, zonk), self.term(df, zonk)]));
                }
                l(vec![a("let"), l(v), self.term(bd, zonk)])
            }
            Variant::Negation(x) => l(vec![a("neg"), self.term(x, zonk)]),
            Variant::Sum(x, y) => b(self, "sum", x, y),
            Variant::Difference(x, y) => b(self, "diff", x, y),
            Variant::Product(x, y) => b(self, "prod", x, y),
            Variant::Quotient(x, y) => b(self, "quot", x, y),
            Variant::LessThan(x, y) => b(self, "lt", x, y),
            Variant::LessThanOrEqualTo(x, y) => b(self, "le", x, y),
            Variant::EqualTo(x, y) => b(self, "eq", x, y),
            Variant::GreaterThan(x, y) => b(self, "gt", x, y),
            Variant::GreaterThanOrEqualTo(x, y) => b(self, "ge", x, y),
            Variant::If(c, x, y) => l(vec![
                a("if"),
                self.term(c, zonk),
                self.term(x, zonk),
                self.term(y, zonk),
            ]),
        }
    }

    // Dump the store of every cell seen so far (and cells reachable from their solutions).
    pub fn store(&mut self) -> Sx {
        let mut out = vec![a("store")];
        let mut i = 0;
        while i < self.cells.len() {
            let (id, c) = self.cells[i].clone();
            let sol = { c.borrow().clone() };
            out.push(l(vec![
                n(id),
                match sol {
                    None => a("none"),
                    Some(t) => self.term(&t, false),
                },
            ]));
            i += 1;
        }
        Sx::L(out)
    }
}

pub fn _binops() -> &'static [&'static str] {
    &BINOPS
}
