// One operation per case line: `(op args...)` -> result S-expression.
use crate::de_bruijn::{open, signed_shift, unsigned_shift};
use crate::evaluator::{evaluate, is_value, step};
use crate::parser::parse;
use crate::tokenizer::tokenize;
use crate::type_checker::type_check;
use crate::normalizer::normalize_weak_head;
use crate::unifier::unify;
use crate::equality::syntactically_equal;
use std::rc::Rc;
use crate::error::Error;
use crate::sx::{hex_decode, hex_encode};
use crate::sx::{Sx, a, l, n};
use crate::term::{Term, free_variables};
use crate::tx::{Exporter, Importer};
use std::collections::HashSet;

pub fn run_case(c: &Sx) -> Sx {
    let v = c.list();
    match v[0].atom() {
        "sshift" | "ushift" | "open" | "fv" | "dblaws" => c11(v),
        "step" | "isvalue" | "evalterm" => c02_term(v),
        "pipe" => pipe(v),
        "tok" => tok(v),
        "relayout" => relayout(v),
        "parsetoks" => parsetoks(v),
        "parsesrc" => parsesrc(v),
        "timeparse" => timeparse(v),
        "print" => print_term(v),
        "listing" => listing_op(v),
        "diag" => diag(v),
        "c06" => c06(v),
        "unifypair" => unifypair(v),
        "unify" => unify_op(v),
        "whnf" => whnf_op(v),
        "tcctx" => tcctx(v),
        "pair" => pair(v),
        "peel" => peel(v),
        "roundtrip" => roundtrip(v),
        "asciiclasses" => ascii_classes(),
        h => panic!("harness: unknown op {h}"),
    }
}

#[cfg(feature = "verif")]
pub fn hooks_take() -> Sx {
    let h = crate::verif_hooks::take();
    l(vec![a("hooks"), n(h[0] as usize), n(h[1] as usize), n(h[2] as usize), n(h[3] as usize), n(h[4] as usize)])
}
#[cfg(not(feature = "verif"))]
pub fn hooks_take() -> Sx {
    l(vec![a("hooks")])
}

fn errs(tag: &str, es: &[Error]) -> Sx {
    let mut r = vec![a(tag)];
    for e in es {
        r.push(a(&hex_encode(e.message.as_bytes())));
    }
    l(r)
}

// ------------------------------------------------------------------------ evaluator (term level)
fn c02_term(v: &[Sx]) -> Sx {
    let mut imp = Importer::default();
    let t = imp.term(&v[1]);
    match v[0].atom() {
        "step" => exo(&step(&t)),
        "isvalue" => b(is_value(&t)),
        "evalterm" => match evaluate(&t) {
            Ok(x) => l(vec![a("value"), ex(&x)]),
            Err(_) => {
                // recover the stuck term by driving `step` ourselves
                let mut cur = t.clone();
                while let Some(n) = step(&cur) {
                    cur = n;
                }
                l(vec![a("stuck"), ex(&cur)])
            }
        },
        _ => unreachable!(),
    }
}

// ------------------------------------------------------------------------ whole pipeline on text
// (pipe <mode> x:<hex source>)   mode: check | run
pub fn pipe(v: &[Sx]) -> Sx {
    let mode = v[1].atom().to_owned();
    let bytes = hex_decode(v[2].atom());
    let src = match String::from_utf8(bytes) {
        Ok(s) => s,
        Err(_) => return l(vec![a("notutf8")]),
    };
    let _ = hooks_take();
    let tokens = match tokenize(None, &src) {
        Ok(t) => t,
        Err(es) => return errs("lexerr", &es),
    };
    let term = match parse(None, &src, &tokens[..], &[]) {
        Ok(t) => t,
        Err(es) => return errs("parseerr", &es),
    };
    let mut tc = vec![];
    let mut dc = vec![];
    let mut exp = Exporter::default();
    let parsed = exp.term(&term, false);
    let (e, ty) = match type_check(None, &src, &term, &mut tc, &mut dc) {
        Ok(x) => x,
        Err(es) => return errs("typeerr", &es),
    };
    let ctx_ok = tc.is_empty() && dc.is_empty();
    let hooks_check = hooks_take();
    let es = exp.term(&e, true);
    let tys = exp.term(&ty, true);
    let raw = exp.term(&e, false);
    let ev = if mode == "run" {
        match evaluate(&e) {
            Ok(x) => l(vec![a("value"), exp.term(&x, true)]),
            Err(_) => {
                let mut cur = e.clone();
                while let Some(n) = step(&cur) {
                    cur = n;
                }
                l(vec![a("stuck"), exp.term(&cur, true)])
            }
        }
    } else {
        a("noeval")
    };
    let hooks_eval = hooks_take();
    l(vec![a("ok"), parsed, es, tys, ev, b(ctx_ok), hooks_check, raw, hooks_eval])
}

fn ex(t: &Term<'static>) -> Sx {
    Exporter::default().term(t, false)
}
fn exo(t: &Option<Term<'static>>) -> Sx {
    match t {
        None => a("none"),
        Some(t) => l(vec![a("some"), ex(t)]),
    }
}
fn fvs(t: &Term<'static>, c: usize) -> Vec<usize> {
    let mut s = HashSet::new();
    free_variables(t, c, &mut s);
    let mut v: Vec<usize> = s.into_iter().collect();
    v.sort_unstable();
    v
}
fn b(x: bool) -> Sx {
    a(if x { "1" } else { "0" })
}

// ---------------------------------------------------------------------------------------- C11
fn c11(v: &[Sx]) -> Sx {
    let mut imp = Importer::default();
    match v[0].atom() {
        "sshift" => {
            let t = imp.term(&v[1]);
            exo(&signed_shift(&t, v[2].usize(), v[3].isize()))
        }
        "ushift" => {
            let t = imp.term(&v[1]);
            ex(&unsigned_shift(&t, v[2].usize(), v[3].usize()))
        }
        "open" => {
            let t = imp.term(&v[1]);
            let s = imp.term(&v[3]);
            ex(&open(&t, v[2].usize(), &s, v[4].usize()))
        }
        "fv" => {
            let t = imp.term(&v[1]);
            let mut r = vec![a("set")];
            r.extend(fvs(&t, v[2].usize()).into_iter().map(n));
            l(r)
        }
        // (dblaws T c m n i S k): the laws of C11 evaluated on the implementation's results alone.
        "dblaws" => {
            let t = imp.term(&v[1]);
            let c = v[2].usize();
            let m = v[3].usize();
            let nn = v[4].usize();
            let i = v[5].usize();
            let s = imp.term(&v[6]);
            let k = v[7].usize();
            let eq = |x: &Term<'static>, y: &Term<'static>| ex(x) == ex(y);
            let eqo = |x: &Option<Term<'static>>, y: &Option<Term<'static>>| exo(x) == exo(y);
            let mut r = vec![a("laws")];
            // 1. shift by zero is the identity
            r.push(b(eqo(&signed_shift(&t, c, 0), &Some(t.clone()))));
            // 2. shifts compose additively
            let um = unsigned_shift(&t, c, m);
            r.push(b(eq(&unsigned_shift(&um, c, nn), &unsigned_shift(&t, c, m + nn))));
            // 3. a downward shift undoes an upward one
            r.push(b(eqo(
                &signed_shift(&unsigned_shift(&t, c, nn), c, -(nn as isize)),
                &Some(t.clone()),
            )));
            // 4. a downward shift fails exactly when a variable would become unbound
            let down = signed_shift(&t, c, -(nn as isize));
            let unbound = fvs(&t, c).iter().any(|x| *x < nn);
            r.push(b(down.is_none() == unbound));
            // 5. opening a term in which the variable does not occur merely lowers the indices above it
            let fv0 = fvs(&t, 0);
            if fv0.contains(&i) {
                r.push(a("-"));
            } else {
                r.push(b(eqo(&signed_shift(&t, i, -1), &Some(open(&t, i, &s, k)))));
            }
            // 6. free variables of an upward shift
            let mut pred: Vec<usize> = fv0.iter().map(|j| if *j < c { *j } else { *j + nn }).collect();
            pred.sort_unstable();
            pred.dedup();
            r.push(b(fvs(&unsigned_shift(&t, c, nn), 0) == pred));
            // 7. free variables of an opening
            let mut pred: Vec<usize> = fv0
                .iter()
                .filter(|j| **j != i)
                .map(|j| if *j > i { *j - 1 } else { *j })
                .collect();
            if fv0.contains(&i) {
                pred.extend(fvs(&unsigned_shift(&s, 0, k), 0));
            }
            pred.sort_unstable();
            pred.dedup();
            r.push(b(fvs(&open(&t, i, &s, k), 0) == pred));
            // 8. composition of signed shifts when both succeed (down then up)
            if let Some(d) = &down {
                r.push(b(eqo(&signed_shift(d, c, m as isize), &signed_shift(&t, c, m as isize - nn as isize))));
            } else {
                r.push(a("-"));
            }
            l(r)
        }
        _ => unreachable!(),
    }
}

// ------------------------------------------------------------------------------------ tokenizer
pub fn token_sx(t: &crate::token::Token) -> Sx {
    use crate::token::{TerminatorType, Variant as V};
    let k = match &t.variant {
        V::Asterisk => "KAsterisk",
        V::Boolean => "KBoolean",
        V::Colon => "KColon",
        V::DoubleEquals => "KDoubleEquals",
        V::Else => "KElse",
        V::Equals => "KEquals",
        V::False => "KFalse",
        V::GreaterThan => "KGreaterThan",
        V::GreaterThanOrEqualTo => "KGreaterThanOrEqualTo",
        V::Identifier(_) => "KIdentifier",
        V::If => "KIf",
        V::Integer => "KInteger",
        V::IntegerLiteral(_) => "KIntegerLiteral",
        V::LeftCurly => "KLeftCurly",
        V::LeftParen => "KLeftParen",
        V::LessThan => "KLessThan",
        V::LessThanOrEqualTo => "KLessThanOrEqualTo",
        V::Minus => "KMinus",
        V::Plus => "KPlus",
        V::RightCurly => "KRightCurly",
        V::RightParen => "KRightParen",
        V::Slash => "KSlash",
        V::Terminator(TerminatorType::LineBreak) => "KLineBreak",
        V::Terminator(TerminatorType::Semicolon) => "KSemicolon",
        V::Then => "KThen",
        V::ThickArrow => "KThickArrow",
        V::ThinArrow => "KThinArrow",
        V::True => "KTrue",
        V::Type => "KType",
    };
    let mut r = vec![a(k), n(t.source_range.start), n(t.source_range.end)];
    match &t.variant {
        V::Identifier(x) => r.push(a(&hex_encode(x.as_bytes()))),
        V::IntegerLiteral(z) => r.push(a(&z.to_string())),
        _ => {}
    }
    l(r)
}

fn chars_sx(src: &str) -> Sx {
    use unicode_segmentation::GraphemeCursor;
    let mut r = vec![a("chars")];
    for (i, c) in src.char_indices() {
        let mut cur = GraphemeCursor::new(i, src.len(), true);
        let gend = cur.next_boundary(src, 0).ok().flatten().unwrap_or(src.len());
        let w = c.len_utf8();
        if !c.is_ascii() || gend != i + w {
            r.push(l(vec![
                n(i),
                n(c as usize),
                n(w),
                b(c.is_alphabetic()),
                b(c.is_alphanumeric()),
                b(c.is_whitespace()),
                n(gend),
            ]));
        }
    }
    l(r)
}

fn tok(v: &[Sx]) -> Sx {
    let bytes = hex_decode(v[1].atom());
    let src = match String::from_utf8(bytes) {
        Ok(s) => s,
        Err(_) => return l(vec![a("notutf8")]),
    };
    match tokenize(None, &src) {
        Ok(ts) => {
            let mut r = vec![a("toks")];
            r.extend(ts.iter().map(token_sx));
            l(vec![a("ok"), l(r), chars_sx(&src)])
        }
        Err(es) => {
            let mut r = vec![a("syms")];
            for e in &es {
                // "... Unexpected symbol `X`."  (colours are off, so code_str uses backticks)
                let first = e.message.split('\n').next().unwrap_or("");
                let st = first.find('`').map(|p| p + 1).unwrap_or(0);
                let en = first.rfind('`').unwrap_or(st);
                r.push(a(&hex_encode(first[st..en.max(st)].as_bytes())));
            }
            l(vec![a("err"), l(r), chars_sx(&src)])
        }
    }
}

fn ascii_classes() -> Sx {
    let mut r = vec![a("classes")];
    for c in 0u8..128 {
        let ch = c as char;
        r.push(l(vec![n(c as usize), b(ch.is_alphabetic()), b(ch.is_alphanumeric()), b(ch.is_whitespace())]));
    }
    l(r)
}

// (relayout x:<src A> x:<src B>): token kinds (terminator type ignored) and payloads, and the parser's
// output modulo source ranges, of two layouts of the same program.
fn relayout(v: &[Sx]) -> Sx {
    let sa = String::from_utf8(hex_decode(v[1].atom())).expect("utf8");
    let sb = String::from_utf8(hex_decode(v[2].atom())).expect("utf8");
    let kinds = |ts: &[crate::token::Token]| -> Vec<String> {
        ts.iter()
            .map(|t| {
                let s = token_sx(t);
                let lst = s.list();
                let k = lst[0].atom();
                let k = if k == "KLineBreak" || k == "KSemicolon" { "KTerminator" } else { k };
                if lst.len() > 3 { format!("{k}:{}", lst[3].atom()) } else { k.to_owned() }
            })
            .collect()
    };
    let ta = tokenize(None, &sa);
    let tb = tokenize(None, &sb);
    match (&ta, &tb) {
        (Ok(xa), Ok(xb)) => {
            let ka = kinds(xa);
            let kb = kinds(xb);
            if ka != kb {
                return l(vec![a("diff"), a("tokens"), a(&hex_encode(ka.join(" ").as_bytes())), a(&hex_encode(kb.join(" ").as_bytes()))]);
            }
            let pa = parse(None, &sa, &xa[..], &[]);
            let pb = parse(None, &sb, &xb[..], &[]);
            match (&pa, &pb) {
                (Ok(x), Ok(y)) => {
                    let ea = Exporter::default().term(x, false);
                    let eb = Exporter::default().term(y, false);
                    if ea == eb { l(vec![a("same"), a("parsed"), n(xa.len())]) } else { l(vec![a("diff"), a("parse"), ea, eb]) }
                }
                (Err(x), Err(y)) => {
                    if x.len() == y.len() { l(vec![a("same"), a("rejected"), n(xa.len())]) } else { l(vec![a("diff"), a("errorcount"), n(x.len()), n(y.len())]) }
                }
                _ => l(vec![a("diff"), a("verdict"), b(pa.is_ok()), b(pb.is_ok())]),
            }
        }
        (Err(_), Err(_)) => l(vec![a("same"), a("lexerr"), n(0)]),
        _ => l(vec![a("diff"), a("lexverdict"), b(ta.is_ok()), b(tb.is_ok())]),
    }
}

// ---------------------------------------------------------------------------------------- parser
fn parse_result<'a>(r: Result<Term<'a>, Vec<Error>>, ranges: bool) -> Sx {
    let hk = hooks_take();
    match r {
        Ok(t) => {
            let mut e = Exporter::default();
            e.ranges = ranges;
            l(vec![a("ok"), e.term(&t, false), hk])
        }
        Err(es) => {
            let mut r = vec![a("err"), n(es.len()), hk];
            for e in &es {
                r.push(a(&hex_encode(e.message.as_bytes())));
            }
            l(r)
        }
    }
}

// (parsetoks <tok> ...) where <tok> is a kind atom, (KIdentifier name) or (KIntegerLiteral dec):
// the token list is laid out with single spaces and handed to parse() directly.
fn parsetoks(v: &[Sx]) -> Sx {
    use crate::error::SourceRange;
    use crate::token::{TerminatorType, Token, Variant as V};
    let mut src = String::new();
    let mut spans = vec![];
    for t in &v[1..] {
        let text: String = match t {
            Sx::A(k) => match k.as_str() {
                "KAsterisk" => "*", "KBoolean" => "bool", "KColon" => ":", "KDoubleEquals" => "==", "KElse" => "else",
                "KEquals" => "=", "KFalse" => "false", "KGreaterThan" => ">", "KGreaterThanOrEqualTo" => ">=", "KIf" => "if",
                "KInteger" => "int", "KLeftCurly" => "{", "KLeftParen" => "(", "KLessThan" => "<", "KLessThanOrEqualTo" => "<=",
                "KMinus" => "-", "KPlus" => "+", "KRightCurly" => "}", "KRightParen" => ")", "KSlash" => "/",
                "KLineBreak" => "\n", "KSemicolon" => ";", "KThen" => "then", "KThickArrow" => "=>", "KThinArrow" => "->",
                "KTrue" => "true", "KType" => "type",
                _ => panic!("harness: token kind {k}"),
            }
            .to_owned(),
            Sx::L(x) => x[1].atom().to_owned(),
        };
        if !src.is_empty() {
            src.push(' ');
        }
        let st = src.len();
        src.push_str(&text);
        spans.push((st, src.len()));
    }
    let src: &'static str = Box::leak(src.into_boxed_str());
    let mut toks = vec![];
    for (t, (st, en)) in v[1..].iter().zip(spans) {
        let variant = match t {
            Sx::A(k) => match k.as_str() {
                "KAsterisk" => V::Asterisk, "KBoolean" => V::Boolean, "KColon" => V::Colon, "KDoubleEquals" => V::DoubleEquals,
                "KElse" => V::Else, "KEquals" => V::Equals, "KFalse" => V::False, "KGreaterThan" => V::GreaterThan,
                "KGreaterThanOrEqualTo" => V::GreaterThanOrEqualTo, "KIf" => V::If, "KInteger" => V::Integer,
                "KLeftCurly" => V::LeftCurly, "KLeftParen" => V::LeftParen, "KLessThan" => V::LessThan,
                "KLessThanOrEqualTo" => V::LessThanOrEqualTo, "KMinus" => V::Minus, "KPlus" => V::Plus,
                "KRightCurly" => V::RightCurly, "KRightParen" => V::RightParen, "KSlash" => V::Slash,
                "KLineBreak" => V::Terminator(TerminatorType::LineBreak), "KSemicolon" => V::Terminator(TerminatorType::Semicolon),
                "KThen" => V::Then, "KThickArrow" => V::ThickArrow, "KThinArrow" => V::ThinArrow, "KTrue" => V::True, "KType" => V::Type,
                _ => unreachable!(),
            },
            Sx::L(x) => match x[0].atom() {
                "KIdentifier" => V::Identifier(&src[st..en]),
                "KIntegerLiteral" => V::IntegerLiteral(num_bigint::BigInt::parse_bytes(x[1].atom().as_bytes(), 10).expect("lit")),
                k => panic!("harness: token {k}"),
            },
        };
        toks.push(Token { source_range: SourceRange { start: st, end: en }, variant });
    }
    let toks: &'static [Token<'static>] = Box::leak(toks.into_boxed_slice());
    let _ = hooks_take();
    let r = parse(None, src, toks, &[]);
    parse_result(r, true)
}

// (parsesrc x:<hex>): tokenize + parse; tokens are returned too so that the model parser runs on the same list
fn parsesrc(v: &[Sx]) -> Sx {
    let src = match String::from_utf8(hex_decode(v[1].atom())) {
        Ok(s) => s,
        Err(_) => return l(vec![a("notutf8")]),
    };
    let toks = match tokenize(None, &src) {
        Ok(t) => t,
        Err(es) => return errs("lexerr", &es),
    };
    let mut tl = vec![a("toks")];
    tl.extend(toks.iter().map(token_sx));
    let _ = hooks_take();
    let r = parse(None, &src, &toks[..], &[]);
    l(vec![a("parsed"), l(tl), parse_result(r, true)])
}

// (timeparse x:<hex> reps): hook counters and the best-of-reps CPU time (microseconds) of tokenize+parse
fn timeparse(v: &[Sx]) -> Sx {
    let src = String::from_utf8(hex_decode(v[1].atom())).expect("utf8");
    let reps = v[2].usize();
    let mut best = u128::MAX;
    let mut ntok = 0;
    let mut verdict = "lexerr";
    let mut hk = a("none");
    for _ in 0..reps {
        let _ = hooks_take();
        let t0 = std::time::Instant::now();
        let toks = tokenize(None, &src);
        if let Ok(ts) = &toks {
            ntok = ts.len();
            let r = parse(None, &src, &ts[..], &[]);
            verdict = if r.is_ok() { "ok" } else { "err" };
        }
        let dt = t0.elapsed().as_micros();
        hk = hooks_take();
        if dt < best {
            best = dt;
        }
    }
    l(vec![a("timed"), a(verdict), n(ntok), n(best as usize), hk])
}

// --------------------------------------------------------------------------------------- printer
// (print T): tokens of to_string(T)
fn print_term(v: &[Sx]) -> Sx {
    let mut imp = Importer::default();
    let t = imp.term(&v[1]);
    let s: &'static str = Box::leak(t.to_string().into_boxed_str());
    match tokenize(None, s) {
        Ok(ts) => {
            let mut r = vec![a("printed"), a(&hex_encode(s.as_bytes()))];
            r.extend(ts.iter().map(token_sx));
            l(r)
        }
        Err(_) => l(vec![a("printed-untokenizable"), a(&hex_encode(s.as_bytes()))]),
    }
}

// (roundtrip x:<src>): parse, print, tokenize + parse the printed text in the same (empty) scope.
fn roundtrip(v: &[Sx]) -> Sx {
    let src = match String::from_utf8(hex_decode(v[1].atom())) {
        Ok(s) => s,
        Err(_) => return l(vec![a("notutf8")]),
    };
    let toks = match tokenize(None, &src) {
        Ok(t) => t,
        Err(_) => return l(vec![a("rejected")]),
    };
    let t = match parse(None, &src, &toks[..], &[]) {
        Ok(t) => t,
        Err(_) => return l(vec![a("rejected")]),
    };
    let printed = t.to_string();
    let original = Exporter::default().term(&t, false);
    let toks2 = match tokenize(None, &printed) {
        Ok(t) => t,
        Err(_) => return l(vec![a("printed-rejected"), a("lex"), a(&hex_encode(printed.as_bytes())), original]),
    };
    let mut tl = vec![a("toks")];
    tl.extend(toks2.iter().map(token_sx));
    match parse(None, &printed, &toks2[..], &[]) {
        Ok(t2) => l(vec![a("reparsed"), a(&hex_encode(printed.as_bytes())), original, Exporter::default().term(&t2, false), l(tl)]),
        Err(_) => l(vec![a("printed-rejected"), a("parse"), a(&hex_encode(printed.as_bytes())), original, l(tl)]),
    }
}

// (listing x:<src> start end)
fn listing_op(v: &[Sx]) -> Sx {
    let src = String::from_utf8(hex_decode(v[1].atom())).expect("utf8");
    let r = crate::error::listing(&src, crate::error::SourceRange { start: v[2].usize(), end: v[3].usize() });
    l(vec![a("listing"), a(&hex_encode(r.as_bytes())), chars_sx(&src)])
}

// (diag x:<src>): the parser's output with ranges (when the program parses) and the diagnostics of the
// whole front end.
fn diag(v: &[Sx]) -> Sx {
    let src = match String::from_utf8(hex_decode(v[1].atom())) {
        Ok(s) => s,
        Err(_) => return l(vec![a("notutf8")]),
    };
    let chars = chars_sx(&src);
    let toks = match tokenize(None, &src) {
        Ok(t) => t,
        Err(es) => return l(vec![a("diag"), a("lex"), a("none"), a("none"), errs("msgs", &es), chars]),
    };
    let mut tl = vec![a("toks")];
    tl.extend(toks.iter().map(token_sx));
    let term = match parse(None, &src, &toks[..], &[]) {
        Ok(t) => t,
        Err(es) => return l(vec![a("diag"), a("parse"), l(tl), a("none"), errs("msgs", &es), chars]),
    };
    let mut e = Exporter::default();
    e.ranges = true;
    let parsed = e.term(&term, false);
    let mut tc = vec![];
    let mut dc = vec![];
    match type_check(None, &src, &term, &mut tc, &mut dc) {
        Ok(_) => l(vec![a("diag"), a("ok"), l(tl), parsed, l(vec![a("msgs")]), chars]),
        Err(es) => l(vec![a("diag"), a("type"), l(tl), parsed, errs("msgs", &es), chars]),
    }
}

// ------------------------------------------------------------------------- checker-level operations
type TCtx = Vec<(Rc<Term<'static>>, usize)>;
type DCtx = Vec<Option<(Rc<Term<'static>>, usize)>>;

// (ctx (param A) | (def A offset D) ...) outermost first; A and D are terms valid where they were written
fn import_ctx(imp: &mut Importer, s: &Sx) -> (TCtx, DCtx) {
    let mut tc: TCtx = vec![];
    let mut dc: DCtx = vec![];
    for e in &s.list()[1..] {
        let e = e.list();
        match e[0].atom() {
            "param" => {
                tc.push((Rc::new(imp.term(&e[1])), 0));
                dc.push(None);
            }
            "def" => {
                let off = e[2].usize();
                tc.push((Rc::new(imp.term(&e[1])), off));
                dc.push(Some((Rc::new(imp.term(&e[3])), off)));
            }
            k => panic!("harness: ctx entry {k}"),
        }
    }
    (tc, dc)
}

fn export_ctx(exp: &mut Exporter<'static>, tc: &TCtx, dc: &DCtx) -> Sx {
    let mut r = vec![a("ctx")];
    for (t, d) in tc.iter().zip(dc.iter()) {
        match d {
            None => r.push(l(vec![a("param"), exp.term(&t.0, true)])),
            Some((dt, off)) => r.push(l(vec![a("def"), exp.term(&t.0, true), n(*off), exp.term(dt, true)])),
        }
    }
    if tc.len() != dc.len() {
        r.push(a("length-mismatch"));
    }
    l(r)
}

// (whnf (ctx ...) T): normalize_weak_head under a definitions context; the context afterwards
fn whnf_op(v: &[Sx]) -> Sx {
    let mut imp = Importer::default();
    let (tc, mut dc) = import_ctx(&mut imp, &v[1]);
    let t = imp.term(&v[2]);
    let before = dc.len();
    let r = normalize_weak_head(&t, &mut dc);
    let mut exp = Exporter::from_importer(&imp);
    let _ = tc;
    l(vec![a("whnf"), exp.term(&r, true), b(dc.len() == before)])
}

// (unifypair (ctx ...) A B): unify in both orders on fresh copies, syntactic equality, and the context afterwards
fn unifypair(v: &[Sx]) -> Sx {
    let run = |x: usize, y: usize| -> (bool, bool) {
        let mut imp = Importer::default();
        let (_, mut dc) = import_ctx(&mut imp, &v[1]);
        let p = imp.term(&v[x]);
        let q = imp.term(&v[y]);
        let before = dc.len();
        let r = unify(&p, &q, &mut dc);
        (r, dc.len() == before)
    };
    let (ab, c1) = run(2, 3);
    let (ba, c2) = run(3, 2);
    let mut imp = Importer::default();
    let p = imp.term(&v[2]);
    let q = imp.term(&v[3]);
    l(vec![a("unified"), b(ab), b(ba), b(syntactically_equal(&p, &q)), b(c1 && c2)])
}

// (unify (ctx ...) A B (store ...)): one unification with holes; result, both sides and the final store
fn unify_op(v: &[Sx]) -> Sx {
    let mut imp = Importer::default();
    let (_, mut dc) = import_ctx(&mut imp, &v[1]);
    let p = imp.term(&v[2]);
    let q = imp.term(&v[3]);
    if v.len() > 4 {
        imp.store(&v[4]);
    }
    let before = dc.len();
    let _ = hooks_take();
    let r = unify(&p, &q, &mut dc);
    let hk = hooks_take();
    let mut exp = Exporter::from_importer(&imp);
    let pz = exp.term(&p, false);
    let qz = exp.term(&q, false);
    let st = exp.store();
    l(vec![a("unify"), b(r), pz, qz, st, b(dc.len() == before), hk])
}

// (c06 x:<src>): for an accepted closed program: its type, weak-head normal form, value, and unify against
// itself and against each of its first reducts in both argument orders
fn c06(v: &[Sx]) -> Sx {
    let src = match String::from_utf8(hex_decode(v[1].atom())) {
        Ok(s) => s,
        Err(_) => return l(vec![a("notutf8")]),
    };
    let toks = match tokenize(None, &src) {
        Ok(t) => t,
        Err(_) => return l(vec![a("rejected")]),
    };
    let term = match parse(None, &src, &toks[..], &[]) {
        Ok(t) => t,
        Err(_) => return l(vec![a("rejected")]),
    };
    let mut tc = vec![];
    let mut dc = vec![];
    let (e, ty) = match type_check(None, &src, &term, &mut tc, &mut dc) {
        Ok(x) => x,
        Err(_) => return l(vec![a("rejected")]),
    };
    let mut exp = Exporter::default();
    let es = exp.term(&e, true);
    let tys = exp.term(&normalize_weak_head(&ty, &mut dc), true);
    let nf = normalize_weak_head(&e, &mut dc);
    let nfs = exp.term(&nf, true);
    let self_unify = unify(&e, &e, &mut dc);
    let mut reducts = vec![a("reducts")];
    let mut cur = e.clone();
    let mut k = 0;
    while k < 20 {
        match step(&cur) {
            Some(nx) => {
                let u1 = unify(&e, &nx, &mut dc);
                let u2 = unify(&nx, &e, &mut dc);
                reducts.push(l(vec![b(u1), b(u2)]));
                cur = nx;
                k += 1;
            }
            None => break,
        }
    }
    let value = match evaluate(&e) {
        Ok(x) => l(vec![a("value"), exp.term(&x, true)]),
        Err(_) => a("stuck"),
    };
    l(vec![a("c06"), es, tys, nfs, value, b(self_unify), l(reducts), b(dc.is_empty() && tc.is_empty())])
}

// (tcctx (ctx ...) T): type_check of an open term under a context, the contexts afterwards, and the same
// for the closed program obtained by binding the context's variables around the term
fn tcctx(v: &[Sx]) -> Sx {
    let mut imp = Importer::default();
    let (mut tc, mut dc) = import_ctx(&mut imp, &v[1]);
    let t = imp.term(&v[2]);
    let mut exp = Exporter::from_importer(&imp);
    let before = export_ctx(&mut exp, &tc, &dc);
    let r = type_check(None, "", &t, &mut tc, &mut dc);
    let after = export_ctx(&mut exp, &tc, &dc);
    let open_res = match &r {
        Ok((e, ty)) => l(vec![a("ok"), exp.term(e, true), exp.term(ty, true)]),
        Err(es) => l(vec![a("err"), n(es.len())]),
    };
    l(vec![a("tcctx"), open_res, b(before == after)])
}

// (pair x:<src A> x:<src B>): both programs through the whole pipeline (check and run)
fn pair(v: &[Sx]) -> Sx {
    let one = |h: &Sx| -> Sx {
        let r = pipe(&[a("pipe"), a("run"), h.clone()]);
        match &r {
            Sx::L(x) if x[0].atom() == "ok" => l(vec![a("accepted"), x[3].clone(), x[4].clone()]),
            // a rejected check leaves its hook counters unread: hand them over (attribution of the recorded
            // finding D9 only)
            Sx::L(x) => l(vec![a("rejected"), x[0].clone(), hooks_take()]),
            _ => r,
        }
    };
    l(vec![a("pair"), one(&v[1]), one(&v[2])])
}

// (peel x:<src> k): parse the closed program, peel up to k outer binder layers (annotated lambdas and
// definition groups) into a typing / definitions context exactly as the checker would push them, and
// type_check the remaining open term under that context; also type_check the closed program.
fn peel(v: &[Sx]) -> Sx {
    use crate::term::Variant;
    let src = match String::from_utf8(hex_decode(v[1].atom())) {
        Ok(s) => s,
        Err(_) => return l(vec![a("notutf8")]),
    };
    let k = v[2].usize();
    let toks = match tokenize(None, &src) {
        Ok(t) => t,
        Err(_) => return l(vec![a("rejected")]),
    };
    let term = match parse(None, &src, &toks[..], &[]) {
        Ok(t) => t,
        Err(_) => return l(vec![a("rejected")]),
    };
    let mut exp = Exporter::default();
    // closed
    let mut tc0 = vec![];
    let mut dc0 = vec![];
    let closed = type_check(None, &src, &term, &mut tc0, &mut dc0);
    let closed_ctx_ok = tc0.is_empty() && dc0.is_empty();
    // peel
    let mut tc = vec![];
    let mut dc = vec![];
    let mut layers = vec![a("layers")];
    // a second, independent parse: the closed run above has filled hole cells of `term`
    let term2 = match parse(None, &src, &toks[..], &[]) {
        Ok(t) => t,
        Err(_) => return l(vec![a("rejected")]),
    };
    let mut cur = term2.clone();
    for _ in 0..k {
        let next = match &cur.variant {
            Variant::Lambda(_, false, domain, body) => {
                if let Variant::Unifier(_, _) = domain.variant {
                    break;
                }
                tc.push((domain.clone(), 0));
                dc.push(None);
                layers.push(l(vec![a("lam"), exp.term(domain, true)]));
                (**body).clone()
            }
            Variant::Let(defs, body) => {
                let nn = defs.len();
                let mut ds = vec![a("let")];
                for (i, (_, ann, def)) in defs.iter().enumerate() {
                    tc.push((ann.clone(), nn - i));
                    dc.push(Some((def.clone(), nn - i)));
                    ds.push(l(vec![exp.term(ann, true), exp.term(def, true)]));
                }
                layers.push(l(ds));
                (**body).clone()
            }
            _ => break,
        };
        cur = next;
    }
    let depth_before = (tc.len(), dc.len());
    // the entries themselves (by identity): a hole inside an entry may legitimately get solved
    let snapshot: Vec<(usize, usize)> = tc.iter().map(|(t, o)| (std::rc::Rc::as_ptr(t) as usize, *o)).collect();
    let dsnap: Vec<Option<(usize, usize)>> =
        dc.iter().map(|e| e.as_ref().map(|(t, o)| (std::rc::Rc::as_ptr(t) as usize, *o))).collect();
    let open_res = type_check(None, &src, &cur, &mut tc, &mut dc);
    let snapshot2: Vec<(usize, usize)> = tc.iter().map(|(t, o)| (std::rc::Rc::as_ptr(t) as usize, *o)).collect();
    let dsnap2: Vec<Option<(usize, usize)>> =
        dc.iter().map(|e| e.as_ref().map(|(t, o)| (std::rc::Rc::as_ptr(t) as usize, *o))).collect();
    let restored = depth_before == (tc.len(), dc.len()) && snapshot == snapshot2 && dsnap == dsnap2;
    let c = match &closed {
        Ok((e, t)) => l(vec![a("ok"), exp.term(e, true), exp.term(t, true)]),
        Err(es) => l(vec![a("err"), n(es.len())]),
    };
    let o2 = match &open_res {
        Ok((e, t)) => l(vec![a("ok"), exp.term(e, true), exp.term(t, true)]),
        Err(es) => l(vec![a("err"), n(es.len())]),
    };
    l(vec![a("peeled"), l(layers), c, o2, b(closed_ctx_ok), b(restored)])
}
