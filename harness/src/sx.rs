// Minimal S-expression reader/printer (exchange format, DESIGN appendix B).
#[derive(Clone, Debug, PartialEq)]
pub enum Sx {
    A(String),
    L(Vec<Sx>),
}

impl Sx {
    pub fn atom(&self) -> &str {
        match self {
            Sx::A(s) => s,
            Sx::L(_) => panic!("harness: expected atom, got list {}", self),
        }
    }
    pub fn list(&self) -> &[Sx] {
        match self {
            Sx::L(v) => v,
            Sx::A(s) => panic!("harness: expected list, got atom {s}"),
        }
    }
    pub fn usize(&self) -> usize {
        self.atom().parse().expect("harness: usize")
    }
    pub fn isize(&self) -> isize {
        self.atom().parse().expect("harness: isize")
    }
    pub fn head(&self) -> &str {
        match self {
            Sx::A(s) => s,
            Sx::L(v) => v[0].atom(),
        }
    }
}

impl std::fmt::Display for Sx {
    fn fmt(&self, f: &mut std::fmt::Formatter) -> std::fmt::Result {
        match self {
            Sx::A(s) => write!(f, "{s}"),
            Sx::L(v) => {
                write!(f, "(")?;
                for (i, x) in v.iter().enumerate() {
                    if i > 0 {
                        write!(f, " ")?;
                    }
                    write!(f, "{x}")?;
                }
                write!(f, ")")
            }
        }
    }
}

pub fn parse(s: &str) -> Sx {
    let b = s.as_bytes();
    let mut i = 0;
    let r = parse_at(b, &mut i);
    r
}

fn parse_at(b: &[u8], i: &mut usize) -> Sx {
    while *i < b.len() && (b[*i] == b' ' || b[*i] == b'\t') {
        *i += 1;
    }
    if *i >= b.len() {
        panic!("harness: unexpected end of s-expression");
    }
    if b[*i] == b'(' {
        *i += 1;
        let mut v = vec![];
        loop {
            while *i < b.len() && (b[*i] == b' ' || b[*i] == b'\t') {
                *i += 1;
            }
            if *i >= b.len() {
                panic!("harness: unclosed s-expression");
            }
            if b[*i] == b')' {
                *i += 1;
                return Sx::L(v);
            }
            v.push(parse_at(b, i));
        }
    } else {
        let st = *i;
        while *i < b.len() && b[*i] != b' ' && b[*i] != b'(' && b[*i] != b')' && b[*i] != b'\t' {
            *i += 1;
        }
        Sx::A(String::from_utf8_lossy(&b[st..*i]).into_owned())
    }
}

pub fn a(s: &str) -> Sx {
    Sx::A(s.to_owned())
}
pub fn l(v: Vec<Sx>) -> Sx {
    Sx::L(v)
}
pub fn n(x: usize) -> Sx {
    Sx::A(x.to_string())
}

pub fn hex_decode(s: &str) -> Vec<u8> {
    let s = s.trim_start_matches("x:");
    (0..s.len() / 2)
        .map(|i| u8::from_str_radix(&s[2 * i..2 * i + 2], 16).expect("hex"))
        .collect()
}
pub fn hex_encode(b: &[u8]) -> String {
    let mut s = String::from("x:");
    for x in b {
        s.push_str(&format!("{x:02x}"));
    }
    s
}
