// Harness: runs gramlang/gram's own functions on exchange-format cases, one per line.
// gram is a bin-only crate, so its sources are compiled in by path.
#![allow(dead_code, unused_imports, unused_macros, clippy::all)]

#[path = "/repo/src/assertions.rs"]
mod assertions;
#[path = "/repo/src/de_bruijn.rs"]
mod de_bruijn;
#[path = "/repo/src/equality.rs"]
mod equality;
#[path = "/repo/src/error.rs"]
mod error;
#[path = "/repo/src/evaluator.rs"]
mod evaluator;
#[path = "/repo/src/format.rs"]
mod format;
#[path = "/repo/src/normalizer.rs"]
mod normalizer;
#[path = "/repo/src/parser.rs"]
mod parser;
#[path = "/repo/src/term.rs"]
mod term;
#[path = "/repo/src/token.rs"]
mod token;
#[path = "/repo/src/tokenizer.rs"]
mod tokenizer;
#[path = "/repo/src/type_checker.rs"]
mod type_checker;
#[path = "/repo/src/unifier.rs"]
mod unifier;

#[cfg(feature = "verif")]
#[path = "/repo/src/verif_hooks.rs"]
mod verif_hooks;

mod ops;
mod sx;
mod tx;

use std::io::{BufRead, Write};
use std::sync::atomic::{AtomicU64, Ordering};
use std::sync::{Arc, Mutex};
use std::time::{Duration, Instant};

static CASE_NO: AtomicU64 = AtomicU64::new(0);

fn main() {
    colored::control::set_override(false);
    let args: Vec<String> = std::env::args().collect();
    let limit_ms: u64 = std::env::var("HARNESS_CASE_MS")
        .ok()
        .and_then(|s| s.parse().ok())
        .unwrap_or(10_000);
    let _ = args;
    // Silence panic messages (they are reported in-band).
    std::panic::set_hook(Box::new(|_| {}));

    let current: Arc<Mutex<Option<(u64, Instant, String)>>> = Arc::new(Mutex::new(None));
    let cur2 = current.clone();
    // Watchdog: a case that exceeds its time limit is reported in-band and the process exits
    // with status 3; the orchestrator restarts the harness on the following case.
    std::thread::spawn(move || {
        loop {
            std::thread::sleep(Duration::from_millis(50));
            let g = cur2.lock().unwrap();
            if let Some((_, st, line)) = &*g {
                if st.elapsed() > Duration::from_millis(limit_ms) {
                    let out = std::io::stdout();
                    let mut o = out.lock();
                    let _ = writeln!(o, "{line}\t(timeout)");
                    let _ = o.flush();
                    std::process::exit(3);
                }
            }
        }
    });

    let worker = std::thread::Builder::new()
        .stack_size(1 << 30)
        .spawn(move || {
            let stdin = std::io::stdin();
            let out = std::io::stdout();
            let mut buf = String::new();
            for line in stdin.lock().lines() {
                let line = line.expect("stdin");
                if line.trim().is_empty() {
                    continue;
                }
                let no = CASE_NO.fetch_add(1, Ordering::SeqCst);
                {
                    *current.lock().unwrap() = Some((no, Instant::now(), line.clone()));
                }
                let l2 = line.clone();
                let res = std::panic::catch_unwind(move || {
                    let sx = sx::parse(&l2);
                    ops::run_case(&sx).to_string()
                });
                let res = match res {
                    Ok(s) => s,
                    Err(e) => {
                        let msg = if let Some(s) = e.downcast_ref::<String>() {
                            s.clone()
                        } else if let Some(s) = e.downcast_ref::<&str>() {
                            (*s).to_owned()
                        } else {
                            "?".to_owned()
                        };
                        let msg: String = msg
                            .chars()
                            .map(|c| if c.is_ascii_alphanumeric() { c } else { '_' })
                            .take(80)
                            .collect();
                        format!("(panic {msg})")
                    }
                };
                {
                    // Hold the lock while writing so that the watchdog cannot interleave.
                    let mut g = current.lock().unwrap();
                    *g = None;
                    buf.clear();
                    buf.push_str(&line);
                    buf.push('\t');
                    buf.push_str(&res);
                    buf.push('\n');
                    let mut o = out.lock();
                    o.write_all(buf.as_bytes()).expect("stdout");
                }
            }
            let _ = out.lock().flush();
        })
        .expect("spawn");
    worker.join().expect("join");
}
